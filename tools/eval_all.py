#!/usr/bin/env python3
"""Evaluate every sub-agent patch found under /tmp/wt/<Cxx>-out against the property's own quick check."""
import glob, os, subprocess, sys
root = os.path.dirname(os.path.dirname(os.path.abspath(__file__)))
only = sys.argv[1:]
for out in sorted(glob.glob("/tmp/wt/C*-out")):
    prop = os.path.basename(out)[:3]
    if only and prop not in only:
        continue
    for n, letter in ((1, "a"), (2, "b")):
        if os.path.exists(f"{out}/patch{n}.diff"):
            extra = os.environ.get("EXTRA_CHECKS", "").split()
            subprocess.run([sys.executable, f"{root}/tools/eval_seed.py", out, str(n), f"{prop}-{letter}", prop, prop] + extra)
            sys.stdout.flush()
