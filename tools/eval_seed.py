#!/usr/bin/env python3
"""Confirm a seeded change produced by a sub-agent and run checks against it.

  tools/eval_seed.py <out-dir> <n> <seed-name> <property> [check ids...]

<out-dir> holds patch<n>.diff, demo<n>.py, notes.md. Everything happens in a scratch worktree of /repo (never /repo itself);
checks are pointed at the worktree through VERIF_REPO and write their evidence / replays to a scratch dir (VERIF_OUT_DIR).
Keeps the change as /verif/seeded/<seed-name>/ (patch.diff, demo.py, meta.json) when it is confirmed."""
import json, os, shutil, subprocess, sys, tempfile, time

out_dir, n, name, prop = sys.argv[1:5]
checks = sys.argv[5:] or [prop]
ROOT = os.path.dirname(os.path.dirname(os.path.abspath(__file__)))
wt = tempfile.mkdtemp(prefix=f"seed-{name}-", dir="/tmp/wt")
os.rmdir(wt)
evd = tempfile.mkdtemp(prefix=f"seedev-{name}-", dir="/tmp/wt")
patch = os.path.join(out_dir, f"patch{n}.diff")
demo = os.path.join(out_dir, f"demo{n}.py")
meta = {"property": prop, "name": name, "source": "independent sub-agent (given only the property text and a scratch worktree)", "ran": []}


def sh(cmd, **kw):
    t = time.time()
    p = subprocess.run(cmd, shell=True, capture_output=True, text=True, **kw)
    meta["ran"].append({"cmd": cmd, "rc": p.returncode, "s": round(time.time() - t, 1)})
    return p


try:
    p = sh(f"git -C /repo worktree add -q --detach {wt} HEAD")
    assert p.returncode == 0, p.stderr
    env = dict(os.environ, PYTHONPATH=wt)
    d0 = sh(f"cd {wt} && timeout 300 /venv/bin/python {demo}", env=env)
    meta["demo_on_clean_rc"] = d0.returncode
    ap = sh(f"git -C {wt} apply {patch}")
    if ap.returncode != 0:
        ap = sh(f"git -C {wt} apply --3way {patch}")
    if ap.returncode != 0:
        # the patch predates the latest fix: commit(s) of /repo that re-indent the lines it touches. Evaluate it on the newest older
        # commit on which it applies (recorded in meta["base"]); the property's own check does not depend on that fix.
        for back in ("HEAD~1", "HEAD~2"):
            sh(f"git -C /repo worktree remove --force {wt}")
            sh(f"git -C /repo worktree add -q --detach {wt} {back}")
            ap = sh(f"git -C {wt} apply {patch}")
            if ap.returncode == 0:
                meta["base"] = back + " = " + sh(f"git -C {wt} rev-parse --short HEAD").stdout.strip() + " (the patch does not apply on the latest fix commit)"
                env = dict(os.environ, PYTHONPATH=wt)
                break
    meta["patch_applies"] = ap.returncode == 0
    if ap.returncode != 0:
        print("PATCH DOES NOT APPLY on current HEAD:", ap.stderr[-500:])
        raise SystemExit(2)
    sh(f"git -C {wt} diff > {evd}/patch.rebased.diff")
    t = sh(f"cd {wt} && /venv/bin/python -m pytest -q -p no:cacheprovider --no-cov --timeout=900 --deselect tests/test_resource.py::test_main_thread_resource_computation_time 2>&1 | grep -E ' passed| failed| error' | tail -1", env=env)
    meta["suite_tail"] = t.stdout.strip().splitlines()[-1] if t.stdout.strip() else ""
    suite_ok = " passed" in meta["suite_tail"] and "failed" not in meta["suite_tail"] and "error" not in meta["suite_tail"]
    d1 = sh(f"cd {wt} && timeout 300 /venv/bin/python {demo}", env=env)
    meta["demo_on_patched_rc"] = d1.returncode
    confirmed = suite_ok and d0.returncode == 0 and d1.returncode != 0
    meta["confirmed"] = confirmed
    print(f"[{name}] suite: {meta['suite_tail']} | demo clean rc={d0.returncode} patched rc={d1.returncode} | confirmed={confirmed}")
    results = {}
    cenv = dict(os.environ, VERIF_REPO=wt, VERIF_OUT_DIR=evd)
    for c in checks:
        r = sh(f"cd {ROOT} && ./check {c} --tier {os.environ.get('TIER', 'quick')}", env=cenv)
        out_lines = r.stdout.splitlines()
        lines = [l + (" " + out_lines[i + 1].strip() if i + 1 < len(out_lines) and out_lines[i + 1].startswith("  #") else "") for i, l in enumerate(out_lines) if l.startswith("VIOLATION")]
        results[c] = {"rc": r.returncode, "violation_lines": len(lines), "first": (lines[0][:400] if lines else ""), "summary": r.stdout.strip().splitlines()[-1][:300] if r.stdout.strip() else r.stderr[-300:]}
        print(f"   check {c}: rc={r.returncode} {len(lines)} violation lines. {results[c]['first'][:260]}")
        if r.returncode not in (0, 1):
            print("   !!", r.stdout[-1500:])
    meta["checks"] = results
    meta["detected_by"] = [c for c, r in results.items() if r["rc"] == 1]
    if confirmed:
        dst = os.path.join(ROOT, "seeded", name)
        os.makedirs(dst, exist_ok=True)
        shutil.copy(os.path.join(evd, "patch.rebased.diff"), os.path.join(dst, "patch.diff"))
        shutil.copy(demo, os.path.join(dst, "demo.py"))
        notes = os.path.join(out_dir, "notes.md")
        if os.path.exists(notes):
            shutil.copy(notes, os.path.join(dst, "notes.md"))
        old = {}
        mp = os.path.join(dst, "meta.json")
        if os.path.exists(mp):
            old = json.load(open(mp))
            old_checks = old.get("checks", {})
            old_checks.update(results)
            meta["checks"] = old_checks
            meta["detected_by"] = [c for c, r in old_checks.items() if r["rc"] == 1]
            meta["needs"] = old.get("needs", "")
        json.dump(meta, open(mp, "w"), indent=1)
finally:
    subprocess.run(f"git -C /repo worktree remove --force {wt}", shell=True, capture_output=True)
    shutil.rmtree(evd, ignore_errors=True)
