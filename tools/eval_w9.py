#!/usr/bin/env python3
"""Evaluate ninth-wave seeds (/tmp/wt/W3-Cxx-out) against the property's own quick check."""
import glob, os, subprocess, sys
root = os.path.dirname(os.path.dirname(os.path.abspath(__file__)))
only = sys.argv[1:]
for out in sorted(glob.glob("/tmp/wt/W9-C*-out")):
    prop = os.path.basename(out)[3:6]
    if only and prop not in only:
        continue
    for n, letter in ((1, "a"), (2, "b"), (3, "c")):
        if os.path.exists(f"{out}/patch{n}.diff") and os.path.exists(f"{out}/demo{n}.py"):
            if os.path.exists(f"{root}/seeded/W9-{prop}-{letter}/meta.json") and not os.environ.get("FORCE"):
                continue
            subprocess.run([sys.executable, f"{root}/tools/eval_seed.py", out, str(n), f"W9-{prop}-{letter}", prop, prop] + os.environ.get("EXTRA_CHECKS", "").split())
            sys.stdout.flush()
