#!/usr/bin/env python3
"""Regenerates /verif/MANIFEST.json from twzmc/checks/info.py (which checks exist) and tools/manifest_meta.json."""
import json, os, sys
ROOT = os.path.dirname(os.path.dirname(os.path.abspath(__file__)))
sys.path.insert(0, ROOT)
from twzmc.checks.info import INFO
meta = json.load(open(os.path.join(ROOT, "tools", "manifest_meta.json")))
props = [json.loads(l)["id"] for l in open(os.path.join(ROOT, "properties.jsonl"))]
checks = []
for cid in props:
    if cid not in INFO or not os.path.exists(os.path.join(ROOT, "twzmc", "checks", cid.lower() + ".py")):
        continue
    m = meta["checks"].get(cid, {})
    checks.append({
        "property_id": cid,
        "quick_cmd": f"./check {cid} --tier quick",
        "thorough_cmd": f"./check {cid} --tier thorough",
        "evidence_file": f"/verif/evidence/{cid}.json",
        "replay_cmd_template": "./check --replay {path}",
        "engine": m.get("engine", "SCHED"),
        "level_claimed": {"category": "model_checking", "text": m.get("text", INFO[cid]["rule"]), "design_ref": m.get("design_ref", "DESIGN.md 3")},
        "level_note": m.get("note", "; ".join(INFO[cid]["assumptions"][:3])),
        "technique": m.get("technique", "stateless exhaustive exploration of the real scheduler under a controlled completion-order/tie-break scheduler (bounded model checking of the implementation)"),
    })
na = [{"property_id": p, "reason": meta["not_applicable"].get(p, "check not built yet (work in progress; will be claimed once its explorer exists)")} for p in props if p not in {c["property_id"] for c in checks}]
man = {
    "version": 1,
    "setup_cmd": "mkdir -p evidence replays && /venv/bin/python -m compileall -q twzmc >/dev/null && /venv/bin/python -c \"import sys; sys.path.insert(0,'/verif'); import twzmc.harness, tawazi; print('ok', tawazi.__file__)\"",
    "hooks": meta["hooks"],
    "engines": meta["engines"],
    "checks": checks,
    "notes": meta["notes"],
    "not_applicable": na,
}
json.dump(man, open(os.path.join(ROOT, "MANIFEST.json"), "w"), indent=1)
print("checks:", [c["property_id"] for c in checks], "n/a:", [x["property_id"] for x in na])
