#!/bin/bash
# usage: tools/replay_test.sh <patchfile> <check id>  -- the check against a scratch worktree with the patch, then every replay file
# it wrote is replayed against the patched tree (must reproduce: exit 1) and against /repo (must not: exit 0)
P="$1"; C="$2"
WT=$(mktemp -d -u /tmp/wt/rt-XXXXXX); EV=$(mktemp -d /tmp/wt/rtev-XXXXXX)
git -C /repo worktree add -q --detach "$WT" HEAD || exit 2
if ! git -C "$WT" apply "$P" 2>/dev/null && ! git -C "$WT" apply --3way "$P"; then echo "patch does not apply"; git -C /repo worktree remove --force "$WT"; exit 2; fi
cd /verif
VERIF_REPO="$WT" VERIF_OUT_DIR="$EV" ./check "$C" > "$EV/out" 2>&1
for f in "$EV"/replays/*.json; do
  [ -e "$f" ] || { echo "$C: no replay files"; break; }
  VERIF_REPO="$WT" ./check --replay "$f" > "$EV/r1" 2>&1; a=$?
  ./check --replay "$f" > "$EV/r2" 2>&1; b=$?
  echo "$C $(basename $f): patched rc=$a clean rc=$b $( [ $a = 1 ] && [ $b = 0 ] && echo OK || echo BAD )"
  [ $a = 1 ] && [ $b = 0 ] || tail -3 "$EV/r1" | cut -c1-300
done
git -C /repo worktree remove --force "$WT"; rm -rf "$EV"
