#!/bin/bash
# usage: tools/try_patch.sh <patchfile> <check ids...>  -- runs checks against a scratch worktree of /repo with the patch applied
P="$1"; shift
WT=$(mktemp -d -u /tmp/wt/try-XXXXXX); EV=$(mktemp -d /tmp/wt/tryev-XXXXXX)
git -C /repo worktree add -q --detach "$WT" HEAD || exit 2
if ! git -C "$WT" apply "$P" 2>/dev/null && ! git -C "$WT" apply --3way "$P"; then echo "patch does not apply"; git -C /repo worktree remove --force "$WT"; exit 2; fi
cd /verif
for c in "$@"; do
  VERIF_REPO="$WT" VERIF_OUT_DIR="$EV" ./check "$c" --tier ${TIER:-quick} > "$EV/$c.out" 2>&1; rc=$?
  echo "== $c exit=$rc: $(grep -c '^VIOLATION' $EV/$c.out) violation lines; $(grep -A1 '^VIOLATION' $EV/$c.out | head -2 | tr '\n' ' ' | cut -c1-400)"
  tail -1 "$EV/$c.out" | cut -c1-250
done
git -C /repo worktree remove --force "$WT"; rm -rf "$EV"
