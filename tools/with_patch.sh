#!/bin/bash
# usage: tools/with_patch.sh [-R] <patchfile> <check ids...>   -- applies the patch to /repo, runs the quick checks, reverts.
REV=""
if [ "$1" = "-R" ]; then REV="-R"; shift; fi
P="$1"; shift
cd /repo || exit 2
if [ -n "$(git status --porcelain --untracked-files=no)" ]; then echo "repo dirty"; exit 2; fi
git apply $REV "$P" || { echo "patch does not apply"; exit 2; }
cd /verif
for c in "$@"; do
  ./check "$c" --tier ${TIER:-quick} > /tmp/wp_$c.out 2>&1; rc=$?
  echo "== $c exit=$rc: $(grep -c '^VIOLATION' /tmp/wp_$c.out) violation lines; $(grep '^VIOLATION' /tmp/wp_$c.out | head -2 | cut -c1-260)"
  tail -1 /tmp/wp_$c.out | cut -c1-250
done
git -C /repo checkout -- .
