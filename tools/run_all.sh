#!/bin/bash
# runs every registered check (quick by default) and prints one summary line each
cd "$(dirname "$0")/.."
T=${1:-quick}
for c in $(python3 -c "import json;print(' '.join(x['property_id'] for x in json.load(open('MANIFEST.json'))['checks']))"); do
  s=$(date +%s); out=$(./check $c --tier $T 2>&1); rc=$?; e=$(date +%s)
  echo "$c rc=$rc $((e-s))s :: $(echo "$out" | grep -c '^VIOLATION') viol, $(echo "$out" | grep -c '^KNOWN-FINDING') known :: $(echo "$out" | tail -1 | cut -c1-200)"
done
