"""THREAD engine (C16): interleavings of builds and calls across OS threads under a baton scheduler.

Exactly one scenario thread runs at any time; a thread hands the baton back at its next scheduling point:
  * sync points : operations of the cooperative lock that replaces tawazi.node.node.exec_nodes_lock (acquire attempt,
                  release, locked() read), explicit pause() calls, operation start / end      -> switching is free
  * line points : every `line` event (sys.settrace) of a frame whose file belongs to the tawazi package
                  -> switching away from a still-enabled thread is a PREEMPTION and is bounded
A thread that cannot take the cooperative lock is disabled (not blocked in the OS). No enabled thread while some are
unfinished = deadlock."""
from __future__ import annotations

import os
import sys
import threading
from typing import Any, Callable, List, Optional, Tuple

SCHED: Optional["TSched"] = None
HORIZON = 60000  # scheduling points per execution (the longest execution of the unchanged tree has a few thousand)


class Deadlock(Exception):
    pass


class TThread:
    def __init__(self, tid: int, body: Callable[[], None]):
        self.tid = tid
        self.body = body
        self.sem = threading.Semaphore(0)
        self.done = False
        self.blocked_on: Optional["CoopLock"] = None
        self.thread: Optional[threading.Thread] = None
        self.started = False
        self.points = 0


class TSched:
    def __init__(self, bodies: List[Callable[[], None]], prefix: Tuple[int, ...] = (), line_mode: bool = False,
                 trace_root: str = "/repo/tawazi/"):
        self.threads = [TThread(i, b) for i, b in enumerate(bodies)]
        self.prefix = tuple(prefix)
        self.pos = 0
        self.choices: List[Tuple[str, int, int]] = []
        self.state_keys: list = []
        self.ctl_sem = threading.Semaphore(0)
        self.line_mode = line_mode
        self.trace_root = trace_root
        self.by_ident = {}
        self.current: Optional[int] = None
        self.outcome = "ok"
        self.log: List[tuple] = []
        self.npoints = 0
        self.rv: Optional[Rendezvous] = None

    # ---- called by scenario threads
    def me(self) -> Optional[TThread]:
        return self.by_ident.get(threading.get_ident())

    def point(self, kind: str) -> None:
        th = self.me()
        if th is None:
            return
        th.points += 1
        th.last_kind = kind
        self.ctl_sem.release()
        th.sem.acquire()

    def _tracer(self, frame, event, arg):
        if event == "call":
            if frame.f_code.co_filename.startswith(self.trace_root):
                return self._local
            return None
        return None

    def _local(self, frame, event, arg):
        if event == "line":
            self.point("line")
        return self._local

    def _run_thread(self, th: TThread) -> None:
        self.by_ident[threading.get_ident()] = th
        th.sem.acquire()
        try:
            if self.line_mode:
                sys.settrace(self._tracer)
            try:
                th.body()
            finally:
                sys.settrace(None)
        finally:
            th.done = True
            self.ctl_sem.release()

    # ---- controller
    def choose(self, kind: str, n: int, key) -> int:
        if n <= 1:
            return 0
        i = self.pos
        self.pos += 1
        c = self.prefix[i] if i < len(self.prefix) else 0
        if c >= n:
            raise RuntimeError(f"THREAD replay divergence at choice {i}")
        self.choices.append((kind, n, c))
        self.state_keys.append((kind, key))
        return c

    def enabled(self) -> List[TThread]:
        out = []
        for t in self.threads:
            if t.done:
                continue
            if t.blocked_on is not None and t.blocked_on.owner is not None:
                continue
            out.append(t)
        return out

    def run(self, timeout: float = 10.0) -> None:
        global SCHED
        SCHED = self
        try:
            for t in self.threads:
                # all scenario threads deliberately carry the SAME name (legal: names need not be unique; two pools with the
                # same thread_name_prefix produce it) so that nothing may identify a thread by its name
                t.thread = threading.Thread(target=self._run_thread, args=(t,), daemon=True, name="worker_0")
                t.thread.start()
            while any(not t.done for t in self.threads):
                if self.npoints > HORIZON:
                    # explicit horizon: a thread that loops for ever THROUGH scheduling points (a spinning scheduler under line-level
                    # tracing) would make this one execution infinite
                    self.outcome = "livelock"
                    break
                en = self.enabled()
                if not en:
                    self.outcome = "deadlock"
                    break
                cur = self.current
                cur_enabled = cur is not None and any(t.tid == cur for t in en)
                order = sorted(en, key=lambda t: (0 if t.tid == cur else 1, t.tid))
                preemptive = cur_enabled  # switching away from a thread that could continue is a preemption
                key = (tuple((t.tid, t.points if not self.line_mode else 0, t.done) for t in self.threads), cur)
                nxt = order[self.choose("pre" if preemptive else "sw", len(order), key)]
                self.current = nxt.tid
                self.npoints += 1
                nxt.sem.release()
                if not self.ctl_sem.acquire(timeout=timeout):
                    self.outcome = "hang"
                    break
            if self.outcome != "ok":
                # let blocked threads die: they are daemons; release them so that they can unwind
                for t in self.threads:
                    if not t.done:
                        t.abandoned = True
        finally:
            SCHED = None


class CoopLock:
    """Drop-in replacement of threading.Lock for tawazi.node.node.exec_nodes_lock."""

    def __init__(self):
        self.owner: Optional[int] = None
        self._real = threading.Lock()

    def _sched_thread(self):
        s = SCHED
        if s is None:
            return None, None
        return s, s.me()

    def acquire(self, blocking: bool = True, timeout: float = -1) -> bool:
        s, th = self._sched_thread()
        if th is None:
            ok = self._real.acquire(blocking, timeout)
            if ok:
                self.owner = -1
            return ok
        s.point("acquire")
        while self.owner is not None:
            if not blocking:
                return False
            th.blocked_on = self
            s.point("blocked")
            if getattr(th, "abandoned", False):
                raise Deadlock()
        th.blocked_on = None
        self.owner = th.tid
        return True

    def release(self) -> None:
        s, th = self._sched_thread()
        if th is None:
            self.owner = None
            self._real.release()
            return
        self.owner = None
        s.point("release")

    def locked(self) -> bool:
        s, th = self._sched_thread()
        if th is not None:
            s.point("locked?")
        return self.owner is not None

    def __enter__(self):
        self.acquire()
        return self

    def __exit__(self, *a):
        self.release()


class CoopRLock(CoopLock):
    """Re-entrant variant (threading.RLock)."""

    def __init__(self):
        super().__init__()
        self.count = 0

    def acquire(self, blocking: bool = True, timeout: float = -1) -> bool:
        s, th = self._sched_thread()
        if th is not None and self.owner == th.tid:
            self.count += 1
            return True
        ok = super().acquire(blocking, timeout)
        if ok:
            self.count = 1
        return ok

    def release(self) -> None:
        self.count -= 1
        if self.count <= 0:
            self.count = 0
            super().release()


class Rendezvous:
    """Meeting point of n scenario threads (a node of one call that needs a node of another call to be running at the same time).
    A thread waiting here is DISABLED, not spinning; if the others can never arrive that is a deadlock."""

    def __init__(self, n: int):
        self.n = n
        self.arrived = 0

    @property
    def owner(self):
        return None if self.arrived >= self.n else -2


def rendezvous() -> None:
    s = SCHED
    th = s.me() if s is not None else None
    if th is None or getattr(s, "rv", None) is None:
        return
    rv = s.rv
    rv.arrived += 1
    while rv.arrived < rv.n:
        th.blocked_on = rv
        s.point("rendezvous")
        if getattr(th, "abandoned", False):
            raise Deadlock()
    th.blocked_on = None


_TICK = [0]


def tick() -> int:
    """Logical clock shared by the scenario threads (exactly one of them runs at any time)."""
    _TICK[0] += 1
    return _TICK[0]


def me_tid() -> int:
    s = SCHED
    th = s.me() if s is not None else None
    return th.tid if th is not None else -1


def pause_value(v):
    """pause(), then hand the value through: a scheduling point in the middle of the evaluation of an argument list."""
    pause()
    return v


def own_all_locks() -> int:
    """Every lock object that lives in a global of a tawazi module is replaced by a cooperative one: a real lock taken by a thread
    that then hands the baton over would block the next thread in the OS, with the baton in its hand."""
    import sys
    n = 0
    lock_t, rlock_t = type(threading.Lock()), type(threading.RLock())
    for name, mod in list(sys.modules.items()):
        if not (name == "tawazi" or name.startswith("tawazi.")) or mod is None:
            continue
        for k, v in list(vars(mod).items()):
            if isinstance(v, lock_t):
                setattr(mod, k, CoopLock())
                n += 1
            elif isinstance(v, rlock_t):
                setattr(mod, k, CoopRLock())
                n += 1
    return n


def pause() -> None:
    """Explicit scheduling point inside a describing function (a build that pauses)."""
    s = SCHED
    if s is not None:
        s.point("pause")


_installed = False


def install() -> CoopLock:
    """Replace tawazi's build lock by the cooperative one (idempotent)."""
    global _installed
    import tawazi.node.node as NN

    if not _installed:
        if not hasattr(NN, "exec_nodes_lock"):
            raise RuntimeError("dead seam: tawazi.node.node.exec_nodes_lock does not exist any more")
        NN.exec_nodes_lock = CoopLock()
        own_all_locks()
        _installed = True
    return NN.exec_nodes_lock
