"""HIST engine: operation histories on DAG instances (C11, C15, C18). A state IS the history that reaches it: every history
is replayed from a freshly built DAG; after each operation the reference model (set of setup nodes done, closure of the
selection) says what must have run, with which arguments."""
from __future__ import annotations

import copy
from typing import Any, Dict, List, Optional

from . import harness as H
from .build import build_gprog
from .gprog import GProg
from .monitors import V, View, mon_c02, mon_c03
from .sched import selection_set, src_lines_of


class Instance:
    def __init__(self, prog: GProg, d=None, ns=None, pre=None):
        self.prog = prog
        if d is None:
            d, ns = build_gprog(prog)
        self.d, self.ns = d, ns
        self.pre: Dict[int, int] = dict(pre or {})  # setup node index -> serial of the execution that computed it

    def clone(self) -> "Instance":
        return Instance(self.prog, copy.deepcopy(self.d), self.ns, self.pre)


def make_call(inst: Instance, kind: str, selection: Optional[dict], args: tuple, executor_obj=None):
    d, prog = inst.d, inst.prog
    ids = prog.ids()
    kw = {}
    if selection:
        for key, name in (("T", "target_nodes"), ("X", "exclude_nodes"), ("R", "root_nodes")):
            if selection.get(key) is not None:
                kw[name] = [(prog.nodes[i].tag if selection.get("by_tag") and prog.nodes[i].tag is not None else ids[i]) for i in selection[key]]
    if kind == "call":
        f = lambda: d(*args)  # noqa: E731
    elif kind == "executor":
        f = lambda: d.executor(**kw)(*args)  # noqa: E731
    elif kind == "executor_obj":
        f = lambda: executor_obj(*args)  # noqa: E731
    elif kind == "setup":
        f = lambda: d.setup(**kw)  # noqa: E731
    elif kind == "executor_setup":
        f = lambda: d.executor(**kw).setup()  # noqa: E731  (the setup nodes the executor's own selection needs)
    else:
        raise ValueError(kind)
    if prog.is_async:
        async def op():
            return await f()
        return op
    return f


def run_op(acc, case, hist_so_far, inst: Instance, kind: str, selection: Optional[dict], args: tuple = (),
           monitors=(mon_c02, mon_c03), executor_obj=None, expect: str = "return", sel_override=None):
    """Run one operation under the controller (default schedule) and check it against the reference. Updates inst.pre."""
    prog = inst.prog
    op = make_call(inst, kind, selection, args, executor_obj)
    H.Tok.FALSY = set(prog.falsy)
    res = H.run_controlled(op, is_async=prog.is_async)
    acc.evaluations += 1
    if sel_override is not None:
        sel = sel_override
    elif kind in ("setup", "executor_setup"):
        sel = selection_set(prog, dict(selection or {}, setup=True))
    else:
        sel = selection_set(prog, selection) if selection else None
    view = View(prog, res, sel, inst.pre, False, args)
    src = prog.source()
    c2 = dict(case, history=hist_so_far)
    if res.outcome != expect and not (expect == "raise" and res.outcome == "raise"):
        acc.violation(V("unexpected_outcome", f"history {hist_so_far}: expected {expect}, got {res.outcome} {res.exc!r}", op=kind), c2, (), res.trace, src)
    if res.outcome == "return" or expect == "raise":
        for m in monitors:
            for viol in m(view):
                viol = dict(viol, msg=f"history {hist_so_far}: " + viol["msg"])
                acc.violation(viol, c2, (), res.trace, src)
    if res.outcome == "return":
        for i, st in view.status.items():
            if st == "run" and prog.nodes[i].setup:
                ent = view.enters.get(view.ids[i])
                if ent:
                    inst.pre[i] = res.trace[ent[0]][2]
    return res, view
