"""Trace monitors (oracles) for the SCHED engine. They know the program (GProg) and the reference run
(gprog.ref_run); they never look at tawazi objects."""
from __future__ import annotations

from typing import Any, Dict, List, Optional, Set

from .gprog import GProg, kw_items
from .harness import Tok


class View:
    """Pre-digested trace of ONE execution of `prog` (selection `sel`, pre-computed setup nodes `pre`)."""

    def __init__(self, prog: GProg, res, sel: Optional[Set[int]] = None, pre: Optional[Dict[int, int]] = None,
                 debug_on: bool = False, args=None, src_lines: Optional[Dict[str, int]] = None, src_file: str = "",
                 ref: Optional[dict] = None):
        self.prog, self.res = prog, res
        self.trace = res.trace
        self.ids = prog.ids()
        self.idx = {s: i for i, s in enumerate(self.ids)}
        self.args = args
        self.ref = ref if ref is not None else prog.ref_run(sel, pre, debug_on, args)
        self.status = {i: self.ref[i][0] for i in self.ref}
        self.src_lines, self.src_file = src_lines or {}, src_file
        self.prog_expects_error = "error" in self.status.values()
        self.case: dict = {}
        tr = self.trace
        self.enters: Dict[str, List[int]] = {}
        self.exits: Dict[str, List[int]] = {}
        self.picks: Dict[str, List[int]] = {}
        self.dispatch: Dict[str, int] = {}
        self.serial = None
        for t, e in enumerate(tr):
            k = e[0]
            if k == "enter":
                self.enters.setdefault(e[1], []).append(t)
                if e[3] == "main":
                    self.dispatch.setdefault(e[1], t)
                if self.serial is None:
                    self.serial = e[2]
            elif k == "exit":
                self.exits.setdefault(e[1], []).append(t)
            elif k == "pick":
                self.picks.setdefault(e[1], []).append(t)
            elif k == "ensure":
                if e[1] is not None:
                    self.dispatch.setdefault(e[1], t)
            elif k == "submit":
                if e[1] is not None and e[2] == "t":
                    self.dispatch.setdefault(e[1], t)
        # observation: when the scheduler learnt that a node finished (wait return; inline nodes: at once)
        self.observed: Dict[str, int] = {}
        for t, e in enumerate(tr):
            if e[0] == "done":
                for x in e[2]:
                    self.observed.setdefault(x, t)
            elif e[0] == "partial":
                self.observed.setdefault(e[2], t)
            elif e[0] == "exit":
                ent = self.enters.get(e[1])
                if ent and tr[ent[-1]][3] != "pool":
                    self.observed.setdefault(e[1], t)
        # nodes whose submission could not be attributed: fall back to entry
        for nid, ts in self.enters.items():
            self.dispatch.setdefault(nid, ts[0])
        # deactivation time: last pick of a node that was never dispatched
        self.deact: Dict[str, int] = {}
        for nid, ts in self.picks.items():
            if nid not in self.dispatch:
                self.deact[nid] = ts[-1]

    # ---- helpers
    def concrete(self, v, serial):
        if v is None:
            return None
        if v[0] == "const":
            return v[1]
        if v[0] == "tok":
            return Tok(v[1], serial if v[2] == "S" else v[2], tuple(v[3]))
        if v[0] == "missing":
            return ("<missing>", v[1])
        raise ValueError(v)

    def finished_before(self, d: int, t: int) -> bool:
        """dependency d (index) is 'done' from the scheduler's point of view before trace position t.
        Judged on what actually happened to d (ran / was deactivated), so that a wrong activation decision is
        reported once, by the property that owns it (C10 / C03)."""
        st = self.status[d]
        nid = self.ids[d]
        if nid in self.dispatch:
            ex = self.exits.get(nid)
            return bool(ex) and ex[0] < t and self.trace[ex[0]][3] == "ok"
        if nid in self.deact:
            return self.deact[nid] < t
        return st in ("pre", "skip")

    def actual_args(self, i: int, t: int, serial: int):
        """Arguments node i must receive when entered at t, given which of its dependencies actually ran."""
        n = self.prog.nodes[i]
        pre = {j: r[1][2] for j, r in self.ref.items() if r[0] == "pre"}

        def val(e):
            if e.src < 0:
                return self.concrete(self.ref_param(-1 - e.src), serial)
            nid = self.ids[e.src]
            if self.prog.nodes[e.src].retnone:
                return None
            if e.src in pre:
                return Tok(nid, pre[e.src], tuple(e.path))
            ex = self.exits.get(nid)
            if ex and ex[0] < t and self.trace[ex[0]][3] == "ok" and self.trace[ex[0]][2] == serial:
                return Tok(nid, serial, tuple(e.path))
            return None

        a = tuple(val(e) for e in n.edges if e.kind == "pos") + tuple(n.consts)
        kw = {name: val(e) for name, e in kw_items(n)}
        return a, kw

    def ref_param(self, k: int):
        from .gprog import NODEFAULT
        nm, d = self.prog.params[k]
        if self.args is not None and k < len(self.args):
            return ("const", self.args[k])
        return ("const", d) if d != NODEFAULT else ("missing", nm)

    def observed_before(self, d: int, t: int) -> bool:
        """like finished_before, but from the scheduler's point of view: the completion has been observed."""
        nid = self.ids[d]
        if nid in self.dispatch:
            o = self.observed.get(nid)
            ex = self.exits.get(nid)
            return o is not None and o < t and bool(ex) and self.trace[ex[0]][3] == "ok"
        if nid in self.deact:
            return self.deact[nid] < t
        return self.status[d] in ("pre", "skip")

    def ready(self, t: int) -> List[int]:
        out = []
        for i, st in self.status.items():
            if st != "run":
                continue
            nid = self.ids[i]
            dt = self.dispatch.get(nid)
            if dt is not None and dt < t:
                continue
            if all(self.observed_before(d, t) for d in self.prog.deps(i)):
                out.append(i)
        return out


def V(kind: str, msg: str, **sig: Any) -> dict:
    return {"kind": kind, "msg": msg, "sig": sig}


# ------------------------------------------------------------------------------------------- C02


def mon_c02(v: View) -> List[dict]:
    out = []
    for nid, ts in v.enters.items():
        i = v.idx.get(nid)
        if i is None:
            continue
        n = v.prog.nodes[i]
        for t in ts:
            e = v.trace[t]
            for d in v.prog.deps(i):
                if not v.finished_before(d, t):
                    out.append(V("premature_start", f"{nid} entered at {t} before its dependency {v.ids[d]} had finished",
                                 node=nid, dep=v.ids[d]))
            ea, ek = v.actual_args(i, t, e[2])
            if tuple(e[5]) != ea or e[6] != ek:
                out.append(V("wrong_arguments", f"{nid} received args={e[5]!r} kwargs={e[6]!r}, expected args={ea!r} kwargs={ek!r}",
                             node=nid))
    return out


# ------------------------------------------------------------------------------------------- C03


def mon_c03(v: View) -> List[dict]:
    out = []
    if v.res.outcome != "return":
        return out
    for i, st in v.status.items():
        nid = v.ids[i]
        cnt = len(v.enters.get(nid, ()))
        want = 1 if st == "run" else 0
        if cnt != want:
            out.append(V("entry_count", f"{nid} (reference status {st}) was entered {cnt} times, expected {want}", node=nid, status=st,
                         got=cnt))
    for nid in v.enters:
        if nid not in v.idx:
            out.append(V("unknown_node", f"a node with unexpected id {nid} was entered", node=nid))
    return out


# ------------------------------------------------------------------------------------------- C04


def mon_c04(v: View) -> List[dict]:
    out = []
    mc = v.prog.mc
    inflight: Dict[int, Any] = {}
    by_id: Dict[str, int] = {}
    for t, e in enumerate(v.trace):
        if e[0] == "submit":
            inflight[e[3]] = e[1]
            if len(inflight) > mc:
                out.append(V("over_submission", f"{len(inflight)} pooled nodes in flight at submit of {e[1]} (max_concurrency={mc}): {sorted(map(str, inflight.values()))}",
                             at=str(e[1])))
        elif e[0] == "enter":
            nid = e[1]
            i = v.idx.get(nid)
            if i is None:
                continue
            res = v.prog.nodes[i].res
            if res == "m" and e[3] != "main":
                out.append(V("main_thread_node_off_thread", f"main-thread node {nid} entered on a {e[3]} thread", node=nid))
            if res in ("t", "a") and e[3] != "pool":
                out.append(V("pooled_node_on_invoking_thread", f"{res}-resource node {nid} entered on the {e[3]} thread", node=nid))
        elif e[0] == "exit":
            # free the slot of that node (submission number unknown here: match by id hint)
            for n_, nid in list(inflight.items()):
                if nid == e[1]:
                    del inflight[n_]
                    break
            else:
                # unattributed submission (id hint missing): drop the oldest unattributed one
                for n_, nid in list(inflight.items()):
                    if nid is None:
                        del inflight[n_]
                        break
    # main-thread nodes one at a time: intervals on the invoking thread are disjoint by construction of inline
    # calls; verify anyway
    inside = None
    for e in v.trace:
        if e[0] == "enter" and e[3] == "main":
            if inside is not None:
                out.append(V("main_overlap", f"{e[1]} entered on the invoking thread while {inside} was still running there"))
            inside = e[1]
        elif e[0] == "exit" and e[1] == inside:
            inside = None
    return out


# ------------------------------------------------------------------------------------------- C05


def mon_c05(v: View) -> List[dict]:
    out = []
    inside: Set[str] = set()
    for e in v.trace:
        if e[0] == "enter":
            nid = e[1]
            i = v.idx.get(nid)
            seq_new = i is not None and v.prog.nodes[i].seq
            for m in inside:
                j = v.idx.get(m)
                if seq_new or (j is not None and v.prog.nodes[j].seq):
                    out.append(V("sequential_overlap", f"{nid} entered while {m} was running (sequential: {nid if seq_new else m})",
                                 a=nid, b=m))
            inside.add(nid)
        elif e[0] == "exit":
            inside.discard(e[1])
    return out


# ------------------------------------------------------------------------------------------- C06


def failure_observed_at(v: View) -> Optional[int]:
    """Trace position at which a node failure became observable to the scheduler."""
    failed = {e[1]: t for t, e in enumerate(v.trace) if e[0] == "exit" and e[3] == "raise"}
    best = None
    for t, e in enumerate(v.trace):
        if e[0] == "done" and any(x in failed and failed[x] < t for x in e[2]):
            best = t if best is None else min(best, t)
        if e[0] == "exit" and e[3] == "raise":
            # inline main-thread failure: observable at once
            ent = v.enters.get(e[1])
            if ent and v.trace[ent[-1]][3] == "main":
                best = t if best is None else min(best, t)
    return best


def mon_c06(v: View) -> List[dict]:
    out = []
    stop = failure_observed_at(v)
    for nid, t in sorted(v.dispatch.items(), key=lambda kv: kv[1]):
        if stop is not None and t > stop:
            break
        i = v.idx.get(nid)
        if i is None:
            continue
        cp = v.prog.cp_ref(i)
        for m in v.ready(t):
            if m != i and v.prog.cp_ref(m) > cp:
                out.append(V("priority_inversion",
                             f"{nid} (compound priority {cp}) was started at {t} while {v.ids[m]} (compound priority {v.prog.cp_ref(m)}) was ready",
                             started=nid, ready=v.ids[m]))
    return out


# ------------------------------------------------------------------------------------------- C08


def mon_c08(v: View) -> List[dict]:
    """Idle-wait predicate at every blocking point. Violations carry sig.after_async_wait=True when the
    blocking point is a thread-future wait entered right after an asyncio-future wait returned in the same
    scheduler step (the known finding)."""
    out = []
    mc = v.prog.mc
    tr = v.trace
    dispatched_pooled: Dict[str, int] = {}
    observed: Set[str] = set()
    last_pick = -1
    last_async_done = -1
    stop = failure_observed_at(v)

    def check(t: int, pending_now: Set[str], kind: str, after_async: bool, partial: bool) -> None:
        inflight = [x for x in dispatched_pooled if x not in observed]
        if len(inflight) >= mc:
            return
        rdy = v.ready(t)
        if not rdy:
            return
        for x in inflight:
            j = v.idx.get(x)
            if j is not None and v.prog.nodes[j].seq:
                return
        best = max(v.prog.cp_ref(m) for m in rdy)
        if any(v.prog.nodes[m].seq for m in rdy if v.prog.cp_ref(m) == best):
            return
        # a ready sequential node that is going to be deactivated is still "the best ready candidate" until the
        # scheduler has evaluated its flag (it drains the running nodes first)
        for i, st in v.status.items():
            if st == "deact" and v.prog.nodes[i].seq and v.prog.cp_ref(i) >= best:
                nid = v.ids[i]
                if not (nid in v.deact and v.deact[nid] < t) and all(v.observed_before(d, t) for d in v.prog.deps(i)):
                    return
        out.append(V("idle_wait",
                     f"scheduler blocks at {t} ({kind} wait on {sorted(pending_now)}) with {len(inflight)}/{mc} in flight while {[v.ids[m] for m in rdy]} ready",
                     after_async_wait=after_async, partial=partial, wait_kind=kind))

    for t_, nid_, kind_ in not_started_at_waits(v):
        if stop is None or t_ <= stop:
            out.append(V("dispatched_not_running", f"scheduler blocks at {t_} while {nid_} (already dispatched) is not running although fewer than {mc} nodes run",
                         node=nid_))
            break
    t = 0
    n = len(tr)
    while t < n:
        e = tr[t]
        k = e[0]
        if stop is not None and t > stop:
            break
        if k == "pick":
            last_pick = t
        elif k == "ensure":
            if e[1] is not None:
                dispatched_pooled[e[1]] = t
        elif k == "submit":
            if e[2] == "t" and e[1] is not None:
                dispatched_pooled[e[1]] = t
        elif k == "wait":
            pending = set(e[3])
            if pending and not e[4]:
                after_async = e[1] == "t" and last_async_done > last_pick
                check(t, pending, e[1], after_async, False)
        elif k == "partial":
            # a completion inside an ALL_COMPLETED wait: still blocking if something of that wait is pending
            observed.add(e[2])
            # find whether the enclosing wait still has pending members
            j = t - 1
            while j >= 0 and tr[j][0] != "wait":
                j -= 1
            if j >= 0:
                rest = {x for x in tr[j][3] if x not in observed}
                if rest:
                    check(t + 1, rest, tr[j][1], False, True)  # just AFTER this completion has been observed
        elif k == "done":
            observed.update(e[2])
            if e[1] == "a":
                last_async_done = t
        t += 1
    return out


# ------------------------------------------------------------------------------------------- C09


def not_started_at_waits(v: View) -> List[tuple]:
    """(t, node, kind): blocking waits entered while a node the scheduler already dispatched is not running although a
    worker is free for it - an async-thread task that never got a turn of the loop before the loop thread blocked, or a
    submission sitting in the queue of an undersized pool."""
    out = []
    mc = v.prog.mc
    dispatched: Dict[str, int] = {}
    submitted: Set[str] = set()
    entered: Set[str] = set()
    exited: Set[str] = set()
    for t, e in enumerate(v.trace):
        k = e[0]
        if k == "ensure" and e[1] is not None:
            dispatched[e[1]] = t
        elif k == "submit" and e[1] is not None:
            dispatched.setdefault(e[1], t)
            submitted.add(e[1])
        elif k == "enter":
            entered.add(e[1])
        elif k == "exit":
            exited.add(e[1])
        elif k == "wait" and e[3] and not e[4]:
            running = [x for x in dispatched if x in entered and x not in exited]
            if len(running) >= mc:
                continue
            if e[1] == "t":
                # a thread-future wait blocks the loop thread: a task that never got a turn of the loop cannot start any more
                waiting = [x for x in dispatched if x not in entered]
            else:
                # an asyncio-future wait gives pending tasks their turn; whatever has reached a pool by then and is still
                # not running sits in the queue of a pool that has fewer workers than the concurrency limit
                waiting = [x for x in submitted if x not in entered]
            if waiting:
                out.append((t, waiting[0], e[1]))
    return out


def mon_c09(v: View) -> List[dict]:
    out = []
    oc = v.res.outcome
    for t, nid, kind in not_started_at_waits(v):
        out.append(V("starved_node", f"the scheduler blocks the invoking thread at {t} while {nid}, which it already dispatched, has not started and a worker is free: "
                     f"if the awaited node needs {nid}'s completion order, the call never returns", node=nid))
        break
    if oc == "spin":
        out.append(V("spin", f"scheduler loop spins with nothing happening: {v.res.exc}"))
    elif oc == "hang":
        out.append(V("hang", "the call did not return within the watchdog period"))
    elif oc == "return":
        for i, st in v.status.items():
            if st == "run" and not v.enters.get(v.ids[i]):
                out.append(V("returned_without_running", f"call returned normally although {v.ids[i]} never ran", node=v.ids[i]))
    elif oc == "raise":
        # a call may raise only because a node failed (or arguments are invalid)
        if not any(e[0] == "exit" and e[3] == "raise" for e in v.trace) and not v.prog_expects_error:
            out.append(V("internal_error", f"call raised {type(v.res.exc).__name__}: {v.res.exc} although no node failed", exc=type(v.res.exc).__name__))
    return out


# ------------------------------------------------------------------------------------------- C14


def mon_c14(v: View) -> List[dict]:
    from tawazi.errors import TawaziBaseException

    location_known = not getattr(v, "case", {}).get("noloc", False)

    out = []
    tr = v.trace
    failed = [(t, e[1]) for t, e in enumerate(tr) if e[0] == "exit" and e[3] == "raise"]
    oc = v.res.outcome
    exc = v.res.exc
    if not failed:
        if oc == "raise" and not v.prog_expects_error:
            out.append(V("internal_error", f"call raised {type(exc).__name__}: {exc} although no node failed", exc=type(exc).__name__))
        return out
    stop = failure_observed_at(v)
    if oc in ("spin", "hang"):
        return out  # C09's business
    end = next((t for t, e in enumerate(tr) if e[0] in ("raise", "ret")), None)
    if v.prog_expects_error and oc == "raise" and end is not None and (stop is None or stop > end):
        # the call had already ended for another, legitimate reason (the program indexes the None of a deactivated node, as the
        # plain function would) before the scheduler had seen the failing node's failure (it was still running, or finished unobserved)
        return out
    if oc != "raise":
        out.append(V("failure_swallowed", f"node(s) {[f for _, f in failed]} raised but the call returned normally"))
        return out
    failed_ids = [f for _, f in failed]
    # ---- shape of the exception
    if location_known:
        if not isinstance(exc, TawaziBaseException):
            out.append(V("bad_exception_type", f"call raised {type(exc).__name__}: {exc!r} instead of a tawazi exception naming the node",
                         exc=type(exc).__name__))
        else:
            msg = str(exc)
            named = [f for f in failed_ids if f"ExecNode {f} at " in msg]
            if not named:
                out.append(V("failing_node_not_named", f"message {msg!r} names none of the failed nodes {failed_ids}"))
            else:
                f = named[0]
                want_loc = f"{v.src_file}:{v.src_lines.get(f)}"
                if v.src_lines and not msg.endswith(f" at {want_loc}"):
                    out.append(V("wrong_location", f"message {msg!r} does not point at {want_loc}", node=f))
                cause = exc.__cause__
                if not isinstance(cause, Exception) or f"boom in {f}" != str(cause):
                    out.append(V("wrong_cause", f"__cause__ is {cause!r}, expected the exception raised by {f}", node=f))
                else:
                    i = v.idx.get(f)
                    kind = v.prog.nodes[i].fail if i is not None else None
                    exp_t = "ValueError" if kind == "V" else "UserError"
                    if type(cause).__name__ != exp_t:
                        out.append(V("wrong_cause", f"__cause__ has type {type(cause).__name__}, node raised {exp_t}", node=f))
    else:
        if type(exc).__name__ not in ("ValueError", "UserError") or not any(str(exc) == f"boom in {f}" for f in failed_ids):
            out.append(V("bad_exception_type", f"without call location the original exception must propagate, got {type(exc).__name__}: {exc!r}"))
    # ---- nothing downstream, nothing after observation
    bad_desc: Set[int] = set()
    for f in failed_ids:
        i = v.idx.get(f)
        if i is not None:
            bad_desc |= v.prog.desc(i)
    for nid in v.enters:
        j = v.idx.get(nid)
        if j is not None and j in bad_desc:
            out.append(V("dependent_of_failed_started", f"{nid} depends on a failed node and was entered", node=nid))
    if stop is not None:
        for t in range(stop + 1, len(tr)):
            e = tr[t]
            if e[0] == "ensure" or (e[0] == "submit" and e[2] == "t"):
                out.append(V("dispatch_after_failure", f"{e[0]} of {e[1]} at {t} after the failure was observed at {stop}", node=str(e[1]), what=e[0]))
            elif e[0] == "enter":
                i = v.idx.get(e[1])
                res = v.prog.nodes[i].res if i is not None else "?"
                disp = v.dispatch.get(e[1], t)
                out.append(V("entry_after_failure", f"{e[1]} entered at {t} after the failure was observed at {stop}",
                             node=e[1], resource=res, dispatched_before=disp < stop,
                             failure_inline=tr[stop][0] == "exit"))
    return out
