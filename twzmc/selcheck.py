"""Selection semantics (C12, C13): executor(root_nodes=R, exclude_nodes=X, target_nodes=T) against the reference closure."""
from __future__ import annotations

import itertools
from typing import Dict, List, Optional, Set

from . import harness as H
from .gprog import GProg
from .harness import Tok
from .monitors import V


def subsets_upto(n: int, kmax: Optional[int]):
    """None, then all subsets of range(n) with size <= kmax (simplest first)."""
    yield None
    for k in range(0, (n if kmax is None else min(n, kmax)) + 1):
        for s in itertools.combinations(range(n), k):
            yield list(s)


def ref_resolve(prog: GProg, aliases: Optional[list]) -> Optional[Set[int]]:
    """Reference alias resolution: ('ref', i) | str. A string is a tag first (all nodes carrying it), then an id.
    Raises KeyError for an unknown alias."""
    if aliases is None:
        return None
    ids = prog.ids()
    out: Set[int] = set()
    for a in aliases:
        if isinstance(a, (tuple, list)) and a[0] == "ref":
            out.add(a[1])
            continue
        tagged = [i for i, nd in enumerate(prog.nodes)
                  if nd.tag is not None and (a == nd.tag or (isinstance(nd.tag, tuple) and a in nd.tag))]
        if tagged:
            out |= set(tagged)
        elif a in ids:
            out.add(ids.index(a))
        else:
            raise KeyError(a)
    return out


def to_real_aliases(d, ns, prog: GProg, aliases: Optional[list]):
    if aliases is None:
        return None
    ids = prog.ids()
    out = []
    for a in aliases:
        if isinstance(a, (tuple, list)) and a[0] == "ref":
            out.append(d.exec_nodes[ids[a[1]]])
        else:
            out.append(a)
    return out


def evaluate(acc, c: dict, d, ns, prog: GProg, R, X, T, *, debug_on: bool = False, pre: Optional[Dict[int, int]] = None,
             check_id: str = "C12", info: Optional[dict] = None) -> str:
    """Run executor(R, X, T)() on `d` and compare with the reference. Returns a short classification."""
    ids = prog.ids()
    N = len(ids)
    pre = pre or {}
    case = dict(c, R=R, X=X, T=T, debug_on=debug_on)
    # ---- reference
    try:
        Ri, Xi, Ti = ref_resolve(prog, R), ref_resolve(prog, X), ref_resolve(prog, T)
        if Xi is not None:
            # quantifier: every excluded node lies inside the part selected by R
            G1, _ = prog.closure(Ri, None, None)
            if G1 is not None and not Xi <= G1:
                return "outside"
        want, why = prog.closure(Ri, Xi, Ti)
    except KeyError as e:
        want, why = None, f"unknown alias {e}"
    kw = {}
    for name, val in (("root_nodes", R), ("exclude_nodes", X), ("target_nodes", T)):
        if val is not None:
            kw[name] = to_real_aliases(d, ns, prog, val)
    holder = {}

    def op():
        ex = d.executor(**kw)
        holder["nodes"] = {x for x in ex.graph.nodes if x in ids}
        return ex()

    res = H.run_controlled(op)
    acc.evaluations += 1
    entered = [e[1] for e in res.trace if e[0] == "enter"]
    if info is not None:
        info["entered"] = {e[1]: e[2] for e in res.trace if e[0] == "enter"}
        info["outcome"] = res.outcome
    if want == "either":
        return "either"
    if want is None:
        if res.outcome == "raise" and isinstance(res.exc, ValueError) and not entered:
            return "valueerror"
        acc.violation(V("selection_not_refused",
                        f"executor(R={R}, X={X}, T={T}) must raise ValueError ({why}) and run nothing; outcome={res.outcome} {res.exc!r} entered={entered}",
                        why=why.split(" ")[0] if why else ""), case, (), res.trace, prog.source())
        return "bad"
    # ---- a valid selection
    if res.outcome != "return":
        acc.violation(V("selection_refused", f"executor(R={R}, X={X}, T={T}) is valid (closure {sorted(want)}) but raised {res.exc!r}",
                        exc=type(res.exc).__name__), case, (), res.trace, prog.source())
        return "bad"
    dbg = {i for i, nd in enumerate(prog.nodes) if nd.debug}
    want_nodes = {ids[i] for i in want}
    if not debug_on:
        want_nodes -= {ids[i] for i in dbg}
    got_nodes = holder["nodes"]
    ok = True
    if debug_on:
        # debug nodes outside the closure may be pulled in; everything else must match exactly
        extra = got_nodes - want_nodes
        if not (want_nodes <= got_nodes) or any(ids.index(x) not in dbg for x in extra):
            ok = False
    elif got_nodes != want_nodes:
        ok = False
    if not ok:
        acc.violation(V("wrong_graph", f"executor(R={R}, X={X}, T={T}).graph has nodes {sorted(got_nodes)}, reference closure {sorted(want_nodes)}",
                        debug_on=debug_on), case, (), res.trace, prog.source())
    should_run = {x for x in want_nodes if ids.index(x) not in pre}
    ent_set = set(entered)
    pulled = ent_set - should_run
    if len(entered) != len(ent_set):
        acc.violation(V("entered_twice", f"executor(R={R}, X={X}, T={T}): entries {entered}"), case, (), res.trace, prog.source())
    if not (should_run <= ent_set) or any((not debug_on) or ids.index(x) not in dbg for x in pulled if x in ids):
        acc.violation(V("wrong_nodes_ran", f"executor(R={R}, X={X}, T={T}) entered {sorted(ent_set)}, reference {sorted(should_run)} (debug_on={debug_on})",
                        debug_on=debug_on, debug_ran=bool({ids.index(x) for x in pulled if x in ids} & dbg)), case, (), res.trace, prog.source())
        ok = False
    # pulled-in debug nodes received real values
    serial = next((e[2] for e in res.trace if e[0] == "enter"), None)
    for e in res.trace:
        if e[0] == "enter" and e[1] in pulled and e[1] in ids:
            i = ids.index(e[1])
            for a, ed in zip(e[5], [x for x in prog.nodes[i].edges if x.kind == "pos"]):
                if ed.src >= 0 and not isinstance(a, Tok):
                    acc.violation(V("debug_node_missing_input", f"pulled-in debug node {e[1]} received {a!r} for its dependency {ids[ed.src]}"),
                                  case, (), res.trace, prog.source())
                    ok = False
    # returned tuple: real values for executed / pre-computed nodes, None otherwise
    val = res.value
    if not isinstance(val, tuple) or len(val) != N:
        acc.violation(V("wrong_return_shape", f"returned {val!r}"), case, (), res.trace, prog.source())
        return "bad"
    for i in range(N):
        if ids[i] in ent_set:
            exp = Tok(ids[i], serial)
        elif i in pre:
            exp = Tok(ids[i], pre[i])
        else:
            exp = None
        if val[i] != exp and not (exp is None and val[i] is None):
            acc.violation(V("wrong_returned_value", f"executor(R={R}, X={X}, T={T}) returned {val!r}; element {i} should be {exp!r}"),
                          case, (), res.trace, prog.source())
            ok = False
            break
    return "run" if ok else "bad"
