"""Program IR for the PROG engine (C01, C10, C17, C20): printed as ordinary @xn/@dag Python source for tawazi and
evaluated by a boring sequential reference interpreter. Both interpretations come from the one IR value.

atoms:       ["p", name] | ["c", value] | ["v", name, [key...]]
statements:  {"k": "call", "fn", "args": [atom], "kwargs": {name: atom}, "flag": atom|None, "out": name | [names]}
             {"k": "op", "op": "+", "a": atom, "b": atom, "out": name}          (binary operator on results)
             {"k": "uop", "op": "-", "a": atom, "out": name}
             {"k": "logic", "fn": "and_"|"or_"|"not_", "args": [atom], "out": name}
             {"k": "sub", "dag": name, "args": [atom], "flag": atom|None, "out": name | [names]}
program:     {"name", "params": [[name, default|NODEFAULT]], "body": [stmt], "ret": ["none"] | ["atom", a] | ["tuple", [a]] |
              ["list", [a]] | ["dict", {key: a}], "subs": [program]}
"""
from __future__ import annotations

import operator
from typing import Any, Dict, List, Optional, Tuple

NODEFAULT = "<nodefault>"

# ---------------------------------------------------------------- function library (pure, tiny)


def k0():
    return 5


def inc(x):
    return x + 1


def add(x, y=10):
    return x + y


def pair(x):
    return (x, x + 1)


def mkd(x):
    return {"k": x, "l": [x, x + 2]}


def mkx(x):
    """a result with unusual but legal keys: an int key, negative positions in a list"""
    return {1: x + 1, "k": [x, x + 1, x + 2], -1: "minus"}


def ident(x):
    return x


def nonef(x):
    """executed for its side effect: its (legal) result is None"""
    return None


def strf(x):
    return "s" + str(x)


def boom(x):
    raise ValueError(f"boom {x}")


LIB = {"strf": strf, "nonef": nonef, "k0": k0, "inc": inc, "add": add, "pair": pair, "pair_u": pair, "mkd": mkd, "mkx": mkx, "ident": ident, "boom": boom}
UNPACK = {"pair_u": 2}
SETUP_FNS = {"sk0": k0, "sinc": inc}  # setup variants (decorated with setup=True)
LIB.update(SETUP_FNS)

BINOPS = {"+": operator.add, "-": operator.sub, "*": operator.mul, "<": operator.lt, "==": operator.eq, ">=": operator.ge,
          "&": operator.and_, "|": operator.or_, "//": operator.floordiv, "%": operator.mod, "!=": operator.ne, ">": operator.gt}
UOPS = {"-": operator.neg, "abs": abs, "~": operator.invert}


# ---------------------------------------------------------------- reference interpreter


class RefRaise(Exception):
    def __init__(self, exc: BaseException):
        self.exc = exc


def none_like(ret):
    k = ret[0]
    if k == "tuple":
        return tuple(None for _ in ret[1])
    if k == "list":
        return [None for _ in ret[1]]
    if k == "dict":
        return {key: None for key in ret[1]}
    return None


class Ref:
    """Sequential evaluation with plain callables. `calls` logs (fn, args, kwargs) of every library call made."""

    def __init__(self, prog: dict, setup_cache: Optional[dict] = None):
        self.prog = prog
        self.calls: List[tuple] = []
        self.subs = {s["name"]: s for s in prog.get("subs", [])}
        self.setup_cache = setup_cache if setup_cache is not None else {}

    def run(self, args: tuple):
        return self._run(self.prog, args, (), True)

    def _atom(self, env, a):
        if a[0] == "c":
            return a[1]
        if a[0] == "p":
            return env[a[1]]
        v = env[a[1]]
        for key in a[2]:
            v = v[key]  # None[...] raises TypeError: that is the plain-Python behaviour
        return v

    def _run(self, prog, args, prefix, active):
        params = prog["params"]
        if len(args) > len(params):
            raise RefRaise(TypeError("too many arguments"))
        env: Dict[str, Any] = {}
        for i, (nm, d) in enumerate(params):
            if i < len(args):
                env[nm] = args[i]
            elif d != NODEFAULT:
                env[nm] = d
            else:
                raise RefRaise(TypeError(f"missing argument {nm}"))
        if not active:
            # deactivated nested DAG: argument stubs are deactivated as well
            for nm, _ in params:
                env[nm] = None
        subs = {s["name"]: s for s in prog.get("subs", [])}
        subs.update(self.subs)
        for si, st in enumerate(prog["body"]):
            site = prefix + (prog["name"], si)
            try:
                k = st["k"]
                if k == "call":
                    is_setup = st["fn"] in SETUP_FNS
                    run_it = active or is_setup
                    if run_it and st.get("flag") is not None:
                        run_it = bool(self._atom(env, st["flag"]))
                    if not run_it:
                        val = None
                    elif is_setup and site in self.setup_cache:
                        val = self.setup_cache[site]
                    else:
                        a = [self._atom(env, x) for x in st["args"]]
                        kw = {n: self._atom(env, x) for n, x in st.get("kwargs", {}).items()}
                        self.calls.append((st["fn"], tuple(a), tuple(sorted(kw.items()))))
                        val = LIB[st["fn"]](*a, **kw)
                        if is_setup:
                            self.setup_cache[site] = val
                    self._bind(env, st["out"], val, lazy=True)
                elif k == "op":
                    val = BINOPS[st["op"]](self._atom(env, st["a"]), self._atom(env, st["b"])) if active else None
                    env[st["out"]] = val
                elif k == "uop":
                    env[st["out"]] = UOPS[st["op"]](self._atom(env, st["a"])) if active else None
                elif k == "logic":
                    if not active:
                        env[st["out"]] = None
                    else:
                        a = [self._atom(env, x) for x in st["args"]]
                        if st["fn"] == "and_":
                            env[st["out"]] = a[0] and a[1]
                        elif st["fn"] == "or_":
                            env[st["out"]] = a[0] or a[1]
                        else:
                            env[st["out"]] = not a[0]
                elif k == "sub":
                    inner = subs[st["dag"]]
                    sub_active = active
                    if sub_active and st.get("flag") is not None:
                        sub_active = bool(self._atom(env, st["flag"]))
                    a = tuple(self._atom(env, x) for x in st["args"]) if active else tuple(None for _ in st["args"])
                    val = self._run(inner, a, site, sub_active)
                    if not sub_active:
                        val = none_like(inner["ret"])
                    self._bind(env, st["out"], val, lazy=False)
                else:
                    raise ValueError(k)
            except RefRaise:
                raise
            except Exception as e:  # noqa: BLE001
                raise RefRaise(e) from None
        try:
            r = prog["ret"]
            if r[0] == "none":
                return None
            if r[0] == "atom":
                return self._atom(env, r[1])
            if r[0] == "tuple":
                return tuple(self._atom(env, x) for x in r[1])
            if r[0] == "list":
                return [self._atom(env, x) for x in r[1]]
            if r[0] == "dict":
                return {key: self._atom(env, x) for key, x in r[1].items()}
            raise ValueError(r)
        except RefRaise:
            raise
        except Exception as e:  # noqa: BLE001
            raise RefRaise(e) from None

    def _bind(self, env, out, val, lazy):
        if isinstance(out, list):
            if val is None and lazy:
                # `a, b = f(...)` of a deactivated unpacking call: tawazi binds lazily (each name indexes the None
                # when it is used); the reference keeps a marker whose use raises like None[0] does
                for i, nm in enumerate(out):
                    env[nm] = _LazyNoneItem(i)
            else:
                for i, nm in enumerate(out):
                    env[nm] = val[i]
        else:
            env[out] = val


class _LazyNoneItem:
    """x = None[i] evaluated lazily: any use raises TypeError."""

    def __init__(self, i):
        self.i = i

    def _boom(self, *a, **k):
        raise TypeError("'NoneType' object is not subscriptable")

    __getitem__ = __add__ = __radd__ = __sub__ = __rsub__ = __mul__ = __lt__ = __ge__ = __eq__ = __and__ = __or__ = __neg__ = __bool__ = _boom
    __hash__ = None  # type: ignore[assignment]


def ref_eval(prog: dict, args: tuple, setup_cache: Optional[dict] = None):
    """-> ("ok", value, calls) | ("raise", exception, calls)"""
    r = Ref(prog, setup_cache)
    try:
        v = r.run(tuple(args))
        if _has_lazy(v):
            return ("raise", TypeError("'NoneType' object is not subscriptable"), r.calls)
        return ("ok", v, r.calls)
    except RefRaise as e:
        return ("raise", e.exc, r.calls)


def _has_lazy(v) -> bool:
    if isinstance(v, _LazyNoneItem):
        return True
    if isinstance(v, (tuple, list)):
        return any(_has_lazy(x) for x in v)
    if isinstance(v, dict):
        return any(_has_lazy(x) for x in v.values())
    return False


def same(a, b) -> bool:
    """Deep, type-exact equality."""
    if type(a) is not type(b):
        return False
    if isinstance(a, (tuple, list)):
        return len(a) == len(b) and all(same(x, y) for x, y in zip(a, b))
    if isinstance(a, dict):
        return list(a.keys()) == list(b.keys()) and all(same(a[k], b[k]) for k in a)
    return a == b


# ---------------------------------------------------------------- printer


def atom_src(a) -> str:
    if a[0] == "c":
        return repr(a[1])
    if a[0] == "p":
        return a[1]
    return a[1] + "".join(f"[{k!r}]" for k in a[2])


def fn_names(prog: dict, acc=None) -> List[str]:
    acc = acc if acc is not None else []
    for st in prog["body"]:
        if st["k"] == "call" and st["fn"] not in acc:
            acc.append(st["fn"])
    for s in prog.get("subs", []):
        fn_names(s, acc)
    return acc


def site_fn(fn: str, site: int) -> str:
    return f"{fn}__s{site}"


def source(prog: dict, *, mc: int = 1, is_async: bool = False, per_site: Optional[Dict[int, dict]] = None,
           fn_attrs: Optional[Dict[str, dict]] = None, local_subs: bool = False) -> str:
    """Python source of the tawazi version. `per_site`: call-site index (in the top-level body) -> attrs (resource, priority,
    is_sequential): a private decorated wrapper is generated for that site (no function reuse at that site)."""
    per_site = per_site or {}
    fn_attrs = fn_attrs or {}
    L = ["from tawazi import xn, dag, and_, or_, not_, Resource", "import twzmc.harness as H", "import twzmc.ir as IRL", ""]

    def deco(fn, attrs, name):
        a = dict(attrs)
        if fn in UNPACK:
            a["unpack_to"] = UNPACK[fn]
        if fn in SETUP_FNS:
            a["setup"] = True
        args = ", ".join(f"{k}={v}" for k, v in a.items())
        L.append(f"@xn({args})" if args else "@xn")
        L.append(f"def {name}(*a, **k):")
        L.append(f"    return H.lib_call({fn!r}, IRL.LIB[{fn!r}], a, k)")
        L.append("")

    for fn in fn_names(prog):
        deco(fn, fn_attrs.get(fn, {}), fn)
    for si, attrs in per_site.items():
        st = prog["body"][si]
        if st["k"] == "call":
            deco(st["fn"], attrs, site_fn(st["fn"], si))

    def body(p, top):
        for si, st in enumerate(p["body"]):
            k = st["k"]
            out = st["out"]
            lhs = ", ".join(out) if isinstance(out, list) else out
            if k == "call":
                fn = site_fn(st["fn"], si) if (top and si in per_site) else st["fn"]
                parts = [atom_src(x) for x in st["args"]] + [f"{n}={atom_src(x)}" for n, x in st.get("kwargs", {}).items()]
                if st.get("flag") is not None:
                    parts.append("twz_active=" + atom_src(st["flag"]))
                L.append(f"    {lhs} = {fn}({', '.join(parts)})")
            elif k == "op":
                L.append(f"    {lhs} = {atom_src(st['a'])} {st['op']} {atom_src(st['b'])}")
            elif k == "uop":
                if st["op"] == "abs":
                    L.append(f"    {lhs} = abs({atom_src(st['a'])})")
                else:
                    L.append(f"    {lhs} = {st['op']}{atom_src(st['a'])}")
            elif k == "logic":
                L.append(f"    {lhs} = {st['fn']}({', '.join(atom_src(x) for x in st['args'])})")
            elif k == "sub":
                parts = [atom_src(x) for x in st["args"]]
                if st.get("flag") is not None:
                    parts.append("twz_active=" + atom_src(st["flag"]))
                L.append(f"    {lhs} = {st['dag']}({', '.join(parts)})")
        r = p["ret"]
        if r[0] == "none":
            L.append("    return None")
        elif r[0] == "atom":
            L.append(f"    return {atom_src(r[1])}")
        elif r[0] == "tuple":
            L.append("    return (" + "".join(atom_src(x) + ", " for x in r[1]) + ")")
        elif r[0] == "list":
            L.append("    return [" + ", ".join(atom_src(x) for x in r[1]) + "]")
        elif r[0] == "dict":
            L.append("    return {" + ", ".join(f"{k!r}: {atom_src(x)}" for k, x in r[1].items()) + "}")
        L.append("")

    def emit(p, top):
        for s in p.get("subs", []):
            emit(s, False)
        ps = ", ".join(nm if d == NODEFAULT else f"{nm}={d!r}" for nm, d in p["params"])
        start = len(L)
        if top:
            L.append(f"@dag(max_concurrency={mc}, is_async={is_async})")
        else:
            L.append("@dag")
        L.append(f"def {p['name']}({ps}):")
        body(p, top)
        if local_subs and not top:
            # define the DAG inside a factory function: its qualified name contains dots (f.<locals>.name)
            block = ["    " + ln if ln else ln for ln in L[start:]]
            del L[start:]
            L.append(f"def _make_{p['name']}():")
            L.extend(x for x in block if x)
            L.append(f"    return {p['name']}")
            L.append("")
            L.append(f"{p['name']} = _make_{p['name']}()")
            L.append("")

    emit(prog, True)
    return "\n".join(L)
