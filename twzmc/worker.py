"""Worker process: runs the shard `k` of `n` of one check's deterministic case enumeration."""
from __future__ import annotations

import importlib
import json
import os
import sys
import traceback


def main() -> int:
    check_id, tier, k, n, out = sys.argv[1], sys.argv[2], int(sys.argv[3]), int(sys.argv[4]), sys.argv[5]
    if not os.environ.get("VERIF_DEBUG"):
        devnull = os.open(os.devnull, os.O_WRONLY)
        os.dup2(devnull, 2)
    os.environ.setdefault("TAWAZI_VERIF", "1")
    from . import cfgvariant
    cfgvariant.pre_import()
    import tawazi
    cfgvariant.post_import()

    repo = os.environ.get("VERIF_REPO", "/repo")
    if not os.path.realpath(tawazi.__file__).startswith(os.path.realpath(repo) + "/"):
        print(f"HARNESS-ERROR: tawazi imported from {tawazi.__file__}, not from {repo}")
        return 3
    from .acc import Acc

    mod = importlib.import_module(f"twzmc.checks.{check_id.lower()}")
    budget = float(os.environ.get("VERIF_BUDGET_S", mod.BUDGET[tier]))
    acc = Acc(check_id, k, n, budget)
    acc.cfg_variant = cfgvariant.variant()
    status = "ok"
    err = ""
    from .acc import StopShard

    try:
        mod.run_shard(tier, k, n, acc)
    except StopShard:
        pass
    except BaseException as e:  # noqa: BLE001
        status = "error"
        err = "".join(traceback.format_exception(type(e), e, e.__traceback__))
    from . import explore as _ex
    if _ex.RETRIES[0]:
        acc.extra["executions_repeated_after_replay_divergence"] = _ex.RETRIES[0]
    d = acc.dump()
    d["status"], d["error"] = status, err
    with open(out, "w") as f:
        json.dump(d, f)
    return 0 if status == "ok" else 3


if __name__ == "__main__":
    rc = main()
    sys.stdout.flush()
    # threads of a deadlocked tree under test must not keep the process alive (concurrent.futures joins its workers at exit)
    os._exit(rc)
