"""Shared case spaces for the SCHED checks (DESIGN 2.5 menus). A case is a JSON-able dict:

  n, es=[(i, j, kind, path)...] | [(i, j)...], res, seq, prio, mc, is_async,
  falsy=[(node index, path)...], fail={index: 'V'|'U'}, setup=[...], debug=[...], fn=[...] (shared function names),
  consts={index: [..]}, cflag={index: value}, tags={index: tag}
  sel={'T':..,'X':..,'R':..} | None, ties=<budget|None>, warm=<number of earlier calls>, debug_on, batch
"""
from __future__ import annotations

import itertools
from dataclasses import replace
from typing import Iterator, List

from .gprog import NOFLAG, Edge, GNode, GProg, prio_menu, res_menu, seq_menu, shapes

EDGE_KINDS = [("pos", ()), ("kw", ()), ("pos", (0,)), ("kw", ("k",)), ("flag", ()), ("flag", ("k", 1))]
TUPLE_KEY = (("a", 1),)  # ONE key that is a tuple: r["a", 1] (not r["a"][1])


def all_res(n: int):
    return ["".join(x) for x in itertools.product("tam", repeat=n)]


def all_seq(n: int):
    return list(itertools.product((False, True), repeat=n))


def all_prio(n: int, alphabet=(-1, 0, 2)):
    return list(itertools.product(alphabet, repeat=n))


def desc_prio(n: int):
    return tuple(range(n - 1, -1, -1))


def kinds_all(es) -> Iterator[list]:
    """Every assignment of an edge kind to every edge (at most one flag edge per node)."""
    es = list(es)
    for ks in itertools.product(range(len(EDGE_KINDS)), repeat=len(es)):
        flags = {}
        ok = True
        for (i, j), k in zip(es, ks):
            if EDGE_KINDS[k][0] == "flag":
                if j in flags:
                    ok = False
                    break
                flags[j] = 1
        if ok:
            yield [(i, j, EDGE_KINDS[k][0], EDGE_KINDS[k][1]) for (i, j), k in zip(es, ks)]


def kinds_rotating(es, offset: int = 0) -> list:
    out = []
    flags = set()
    for e, (i, j) in enumerate(es):
        kind, path = EDGE_KINDS[(e + offset) % len(EDGE_KINDS)]
        if kind == "flag":
            if j in flags:
                kind, path = "pos", ()
            else:
                flags.add(j)
        out.append((i, j, kind, path))
    return out


def prog_of(c: dict) -> GProg:
    n = c["n"]
    nodes: List[GNode] = []
    es = [tuple(e) for e in c["es"]]
    ids_tmp = None
    for j in range(n):
        edges = []
        for e in es:
            if e[1] != j:
                continue
            if len(e) == 2:
                edges.append(Edge(e[0], "pos"))
            else:
                edges.append(Edge(e[0], e[2], tuple(e[3])))
        kw = dict(edges=tuple(edges))
        if "res" in c:
            kw["res"] = c["res"][j]
        if "seq" in c:
            kw["seq"] = bool(c["seq"][j])
        if "prio" in c:
            kw["prio"] = c["prio"][j]
        if j in _keys(c.get("fail")):
            kw["fail"] = _get(c["fail"], j)
        if j in c.get("setup", ()):
            kw["setup"] = True
        if j in c.get("debug", ()):
            kw["debug"] = True
        if c.get("fn"):
            kw["fn"] = c["fn"][j]
        elif c.get("names") == "rev":
            kw["fn"] = f"m{n - 1 - j}"  # node names against dependency order (ids no longer sort topologically)
        if j in _keys(c.get("consts")):
            kw["consts"] = tuple(_get(c["consts"], j))
        if j in _keys(c.get("cflag")):
            kw["const_flag"] = _get(c["cflag"], j)
        if j in c.get("retnone", ()):
            kw["retnone"] = True
        if j in _keys(c.get("tags")):
            t = _get(c["tags"], j)
            kw["tag"] = tuple(t) if isinstance(t, list) else t
        nodes.append(GNode(**kw))
    p = GProg(nodes=tuple(nodes), mc=c.get("mc", 1), is_async=c.get("is_async", False), decl=c.get("decl", "deco"))
    if c.get("falsy"):
        ids = p.ids()
        p = replace(p, falsy=frozenset((ids[i], tuple(path)) for i, path in c["falsy"]))
    return p


def _keys(d):
    if not d:
        return ()
    return {int(k) for k in d}


def _get(d, j):
    return d[j] if j in d else d[str(j)]


def flag_falsy_variants(es4) -> list:
    """For a kind assignment: every subset of the flag uses is falsy (a token is falsy at (source, path))."""
    fl = []
    for (i, j, kind, path) in es4:
        if kind == "flag" and [i, list(path)] not in fl:
            fl.append([i, list(path)])
    out = []
    for k in range(len(fl) + 1):
        for sub in itertools.combinations(fl, k):
            out.append([list(x) for x in sub])
    return out


def cflag_variants(n: int) -> list:
    """Constant activation flags: none, or one node carrying twz_active=False / True."""
    out = [{}]
    for i in range(n):
        out.append({i: False})
    for i in range(n):
        out.append({i: True})
    return out


def single_selections(p: GProg) -> list:
    """SELm: whole DAG, each single target, each single root, each single exclude (those inside the quantifier)."""
    out = [None, {"T": [], "X": None, "R": None}, {"T": None, "X": None, "R": []}, {"T": None, "X": [], "R": None}]
    n = len(p.nodes)
    for i in range(n):
        out.append({"T": [i], "X": None, "R": None})
    for i in range(n):
        if p.is_root(i):
            out.append({"T": None, "X": None, "R": [i]})
    for i in range(n):
        out.append({"T": None, "X": [i], "R": None})
    return out


def shard_iter(it, k: int, n: int, acc):
    """Yield the items of shard k of n; stop (recording the cap) when the time budget is exhausted."""
    for idx, case in enumerate(it):
        if idx % n != k:
            continue
        if acc.out_of_time():
            acc.capped_at = idx
            return
        yield case


# ---------------------------------------------------------------------- families shared by every SCHED check


def cross_families(tier: str):
    """Feature crossings that every SCHED property is checked on, whoever "owns" the feature (lesson of the seeded
    changes: a bug in the handling of X shows up as a violation of the property about Y):
    constant flags x sequential x resources; early completions next to main-thread nodes; max_concurrency reconfigured
    after the build; several flags on parts of one result with every subset falsy; selections."""
    q = tier == "quick"
    # (a) constant activation flags x sequential x resources
    for n in (2, 3):
        for es in shapes(n):
            for cf in cflag_variants(n)[1:]:  # constant False and constant True flags
                i = next(iter(cf))
                one_hot_others = [tuple(j == k for j in range(n)) for k in range(n) if k != i] if n >= 3 else []
                for seq in [(False,) * n, tuple(j == i for j in range(n)), tuple(j != i for j in range(n))] + one_hot_others:
                    if cf[i] is True and not seq[i]:
                        continue
                    for res in ("t" * n, "a" * n, ("mt" * n)[:n], ("am" * n)[:n]):
                        for mc in (1, 2, 3):
                            yield dict(n=n, es=es, cflag=cf, seq=seq, res=res, mc=mc, prio=tuple(5 if j == i else 0 for j in range(n)),
                                       is_async=(mc == 3), ties=0 if q else 1)
    # (b) early completions (visible to code that polls future.done()) next to inline main-thread nodes
    for n in (3, 4):
        for es in shapes(n):
            if len(es) > (1 if n == 4 else 2):
                continue
            for res in [r for r in all_res(n) if r.count("m") == 1 and (n == 3 or r.count("a") <= 1)]:
                for seq in (seq_menu(n)[:1] + (seq_menu(n)[1:n + 1] if n == 3 else [])):
                    for mc in (2, 3):
                        yield dict(n=n, es=es, seq=seq, res=res, mc=mc, prio=(0,) * n, is_async=False, ties=0, early=1)
    # (c) max_concurrency reconfigured after the build
    for n in (3, 4):
        for es in shapes(n):
            if len(es) > 1:
                continue
            for res in ("t" * n, ("ta" * n)[:n]):
                for build_mc, mc in ((3, 1), (4, 2), (1, 3)):
                    yield dict(n=n, es=es, res=res, mc=mc, reconf={"build_mc": build_mc, "mc": mc, "via": "dict"}, seq=(False,) * n,
                               is_async=False, ties=0)
    yield from conf_family(tier)
    yield from partial_conf_family(tier)
    yield from debug_selection_family(tier)
    # (f) a DAG derived by compose(): node 0 becomes the input, the rest is kept (attributes must survive the derivation);
    #     node names both in and against dependency order
    for n in (3, 4):
        for es in shapes(n):
            if not es or (n == 4 and len(es) > (3 if q else 5)):
                continue
            for names in ("fwd", "rev"):
                for seq in seq_menu(n)[:1] + [tuple(j == k for j in range(n)) for k in range(1, n)]:
                    for prio in ((0,) * n, tuple(range(n)), tuple(3 if j == n - 1 else 0 for j in range(n))):
                        for res in ("t" * n, ("ta" * n)[:n]):
                            yield dict(n=n, es=es, seq=seq, prio=prio, res=res, mc=2, is_async=False, ties=0, composed=True, names=names)
    # (f5) composed DAGs with a chain two levels deep below the input and an independent competitor (N=5)
    for es in shapes(5):
        if not (2 <= len(es) <= 3):
            continue
        inner = [(i, j) for (i, j) in es if i != 0]
        if not any(b == c_ for (a, b) in inner for (c_, d_) in inner):
            continue
        for names in ("fwd", "rev"):
            for prio in ((0, 0, 0, 5, 2), (0, 1, 0, 4, 3), (0, 2, 0, 0, 1)):
                yield dict(n=5, es=es, seq=(False,) * 5, prio=prio, res="ttttt", mc=1, is_async=False, ties=0, composed=True, names=names)
    # (h) nodes declared with the call form of the decorator, function and options in one call: n = xn(f, priority=..., ...)
    for n in (2, 3):
        for es in shapes(n):
            for seq in seq_menu(n)[1:]:
                for res in ("t" * n, ("at" * n)[:n], ("mt" * n)[:n]):
                    for prio in ((0,) * n, tuple(range(n))):
                        for mc in (2, 3):
                            yield dict(n=n, es=es, seq=seq, res=res, prio=prio, mc=mc, is_async=False, ties=0 if q else 1, decl="call")
    # (g) a dependency delivered through ONE tuple key, r["a", 1]
    for n in (2, 3):
        for es in shapes(n):
            if not es:
                continue
            es4 = [(i, j, "pos" if k % 2 == 0 else "kw", TUPLE_KEY) for k, (i, j) in enumerate(es)]
            for res in ("t" * n, ("mt" * n)[:n]):
                yield dict(n=n, es=es4, res=res, mc=2, is_async=False, ties=0)
    # (d) several flags taken from parts of one result, every subset of them falsy
    for n in (3, 4):
        for es in shapes(n):
            fan = [e for e in es if e[0] == 0]
            if len(fan) < 2 or len(es) > len(fan) + 1:
                continue
            paths = [(), ("k", 1), (0,), ("k",)]
            es4 = [(i, j, "flag", paths[k % 4]) if (i, j) in fan else (i, j, "pos", ()) for k, (i, j) in enumerate(es)]
            for falsy in flag_falsy_variants(es4):
                for res in ("t" * n, ("at" * n)[:n]):
                    for mc in (1, 2):
                        yield dict(n=n, es=es4, falsy=falsy, res=res, mc=mc, is_async=False, ties=0)


def conf_family(tier: str):
    """(e) is_sequential / priority set through config_from_dict after the build: by id and by a tag shared by several
    nodes, for all nodes or a subset (partial configuration), to zero from non-zero, before and after a first call."""
    q = tier == "quick"
    for n in (2, 3, 4):
        for es in shapes(n):
            if n == 4 and len(es) > (1 if q else 3):
                continue
            finals = []
            for seq in seq_menu(n)[: n + 1] + ([tuple(j < 2 for j in range(n))] if n >= 3 else []):
                for prio in ((0,) * n, tuple(range(n - 1, -1, -1)), tuple(2 if j % 2 else 0 for j in range(n))):
                    finals.append((seq, prio))
            for seq, prio in finals:
                inits = [((False,) * n, tuple(3 for _ in range(n))), (tuple(not x for x in seq), tuple(reversed(prio)))]
                for init_seq, init_prio in inits:
                    if (tuple(init_seq), tuple(init_prio)) == (tuple(seq), tuple(prio)):
                        continue
                    for via in ("id", "tag"):
                        for after_warm in (False, True):
                            if q and after_warm and via == "tag":
                                continue
                            for res in (("t" * n, ("mt" * n)[:n]) if q else ("t" * n, ("mt" * n)[:n], "a" * n)):
                                yield dict(n=n, es=es, seq=seq, prio=prio, res=res, mc=2 if n < 4 else 3, is_async=False, ties=0,
                                           conf={"via": via, "init": {"seq": list(init_seq), "prio": list(init_prio)}, "after_warm": after_warm})
            # the reconfiguration is done from inside a node of a call in flight (re-entrant use of the object), then a call is explored
            if n <= 3:
                for seq, prio in finals[::3][:4] + finals[1:2]:  # every sequential pattern once, and one priority change
                    # built with NO sequential node (all sequential when the final pattern has none): stale flags would show as overlap
                    init_seq = (False,) * n if any(seq) else (True,) * n
                    init_prio = tuple(x + 1 for x in reversed(prio))
                    for res in ("t" * n, ("mt" * n)[:n]):
                        yield dict(n=n, es=es, seq=seq, prio=prio, res=res, mc=2, is_async=False, ties=0,
                                   conf={"via": "id", "init": {"seq": list(init_seq), "prio": list(init_prio)}, "during_warm": True})
            # partial configuration: only node 0 is (re)configured; the others keep their built attributes
            for prio in (tuple(range(n - 1, -1, -1)), tuple(2 if j == n - 1 else 0 for j in range(n))):
                init_prio = list(prio)
                init_prio[0] = prio[0] + 2
                yield dict(n=n, es=es, seq=(False,) * n, prio=prio, res="t" * n, mc=1, is_async=False, ties=0,
                           conf={"via": "id", "nodes": [0], "init": {"seq": [False] * n, "prio": init_prio}, "after_warm": False})
                yield dict(n=n, es=es, seq=(False,) * n, prio=prio, res=("mt" * n)[:n], mc=2, is_async=False, ties=0,
                           conf={"via": "id", "nodes": [0], "keys": "prio", "init": {"seq": [False] * n, "prio": init_prio}, "after_warm": True})


def partial_conf_family(tier: str):
    """one node's priority is reconfigured (config names only that node), everything else keeps its built value"""
    q = tier == "quick"
    for n in (3, 4):
        for es in shapes(n):
            if n == 4 and len(es) > (2 if q else 4):
                continue
            for prio in prio_menu(n)[1:] + [tuple(3 if j == n - 1 else 0 for j in range(n)), tuple(j % 2 * 2 + 1 for j in range(n))]:
                for k in range(n):
                    for delta in (2, -2):
                        init_prio = list(prio)
                        init_prio[k] = prio[k] + delta
                        for mc in ((1,) if q else (1, 2)):
                            yield dict(n=n, es=es, seq=(False,) * n, prio=prio, res="t" * n, mc=mc, is_async=False, ties=0,
                                       conf={"via": "id", "nodes": [k], "keys": "prio", "init": {"seq": [False] * n, "prio": init_prio}, "after_warm": False})


def debug_selection_family(tier: str):
    """debug nodes with priorities, RUN_DEBUG_NODES on, sub-graph selections: pulled-in debug nodes are scheduled by priority too"""
    import itertools
    q = tier == "quick"
    for n in (3, 4):
        for es in shapes(n):
            if n == 4 and len(es) > (3 if q else 5):
                continue
            succ = {i: {j for (a, j) in es if a == i} for i in range(n)}
            for k in range(1, n):
                for dbg in itertools.combinations(range(n), k):
                    if not all(succ[i] <= set(dbg) for i in dbg):
                        continue
                    for prio in (tuple(5 if j in dbg else 1 for j in range(n)), tuple(range(n))):
                        base = dict(n=n, es=es, debug=list(dbg), debug_on=True, prio=prio, res="t" * n, mc=1, is_async=False, ties=0)
                        yield dict(base, sel=None)
                        for i in range(n):
                            if i not in dbg:
                                yield dict(base, sel={"T": [i], "X": None, "R": None})
                        for i in dbg:
                            yield dict(base, sel={"T": None, "X": [i], "R": None})
                        # two production targets: a debug node below BOTH (one of its parents being a pulled-in debug node) must come along
                        prod = [i for i in range(n) if i not in dbg]
                        if n == 4 and prio[0] != 0:
                            for i, j in itertools.combinations(prod, 2):
                                yield dict(base, sel={"T": [i, j], "X": None, "R": None})


def foreign_quick_cases(own: str):
    """thorough tier: the quick families of all OTHER SCHED checks, run under this check's monitor."""
    import importlib
    for name in ("c02", "c03", "c04", "c05", "c06", "c08", "c09", "c14"):
        if name == own:
            continue
        mod = importlib.import_module(f"twzmc.checks.{name}")
        for c in mod.cases("quick"):
            if c.get("special") or "n" not in c:
                continue
            yield c
