"""Shared case spaces for the SCHED checks (DESIGN 2.5 menus)."""
from __future__ import annotations

import itertools
from typing import Iterator

from .gprog import GProg, prog_from_shape, res_menu, seq_menu, prio_menu, shapes, with_attrs


def all_res(n: int):
    return ["".join(x) for x in itertools.product("tam", repeat=n)]


def all_seq(n: int):
    return list(itertools.product((False, True), repeat=n))


def all_prio(n: int, alphabet=(-1, 0, 2)):
    return list(itertools.product(alphabet, repeat=n))


def desc_prio(n: int):
    return tuple(range(n - 1, -1, -1))


def shard_iter(it, k: int, n: int, acc):
    """Yield the items of shard k of n; stop (recording the cap) when the time budget is exhausted."""
    for idx, case in enumerate(it):
        if idx % n != k:
            continue
        if acc.out_of_time():
            acc.capped_at = idx
            return
        yield case
