"""SCHED engine: seams + controller + event trace for controlled executions of the real scheduler.

Every source of nondeterminism of `tawazi._dag.helpers.async_execute` is replaced by an explicit,
enumerated choice of the Controller (DESIGN.md 2.1 / 2.2):

* which pooled nodes are complete when the scheduler waits     -> `wait` / `asyncio.wait` seams
* when a pooled node starts / finishes                          -> ThreadPoolExecutor seam + gates
* which of several equal-priority candidates `max` returns     -> injected module-global `max`
* order of a done batch that contains a failure                 -> ordered set subclass

Nothing in /repo is modified: all seams are names looked up at call time in tawazi's module
namespaces (or class attributes), installed from outside by `install()`.
"""
from __future__ import annotations

import asyncio as _real_asyncio
import concurrent.futures as _cf
import itertools
import signal
import sys
import threading
import time as _time
import types
from typing import Any, Dict, List, Optional, Tuple

_real_wait = _cf.wait
_RealPool = _cf.ThreadPoolExecutor
_builtin_max = max

tls = threading.local()
SERIAL = itertools.count(1)  # execution serials are global and monotonic (tokens of different executions never collide)


class HarnessError(BaseException):
    """The harness itself is broken / bypassed (dead seam, divergence while replaying...)."""


class SpinDetected(BaseException):
    """Raised inside the scheduler loop when it iterates without any event happening."""


class HangDetected(BaseException):
    """Raised by the watchdog (SIGALRM) when an execution does not finish."""


# --------------------------------------------------------------------------- tokens


class Tok:
    """Value token returned by harness node functions.

    Carries (label of the producing call site, serial of the execution, key path).
    Indexing a token yields the token with the extended path, so every access form the
    describing function may use (x[0], x["k"], unpack_to) works on every node result.
    Truthiness is decided by the program through `falsy`: a set of (label, path) pairs.
    """

    __slots__ = ("label", "serial", "path")
    FALSY: set = set()

    def __init__(self, label: str, serial: int, path: tuple = ()):
        self.label, self.serial, self.path = label, serial, path

    def __getitem__(self, key: Any) -> "Tok":
        if isinstance(key, int) and key >= 8:  # make tuple-unpacking of a token terminate
            raise IndexError(key)
        return Tok(self.label, self.serial, self.path + (key,))

    def __bool__(self) -> bool:
        return (self.label, self.path) not in Tok.FALSY

    def __eq__(self, o: Any) -> bool:
        return isinstance(o, Tok) and (self.label, self.serial, self.path) == (o.label, o.serial, o.path)

    def __ne__(self, o: Any) -> bool:
        return not self.__eq__(o)

    def __hash__(self) -> int:
        return hash((self.label, self.serial, self.path))

    def __repr__(self) -> str:
        p = "".join(f"[{k!r}]" for k in self.path)
        return f"<{self.label}#{self.serial}{p}>"

    def __reduce__(self):
        return (Tok, (self.label, self.serial, self.path))


def canon_trace(trace) -> list:
    """Trace with execution serials replaced by their rank of first appearance (for comparing two runs)."""
    rank: Dict[int, int] = {}

    def r(s):
        if s not in rank:
            rank[s] = len(rank) + 1
        return rank[s]

    def conv(v):
        if isinstance(v, Tok):
            return f"<{v.label}#{r(v.serial)}{list(v.path)}>"
        if isinstance(v, (list, tuple)):
            return [conv(x) for x in v]
        if isinstance(v, dict):
            return {str(k): conv(x) for k, x in v.items()}
        return v if v is None or isinstance(v, (bool, int, float, str)) else repr(v)

    out = []
    for e in trace:
        if e[0] in ("enter", "exit"):
            e = e[:2] + (r(e[2]),) + e[3:]
        out.append(conv(e))
    return out


def jsonable(v: Any) -> Any:
    if isinstance(v, Tok):
        return repr(v)
    if isinstance(v, (list, tuple)):
        return [jsonable(x) for x in v]
    if isinstance(v, dict):
        return {str(k): jsonable(x) for k, x in v.items()}
    if isinstance(v, (set, frozenset)):
        return sorted(jsonable(x) for x in v)
    if v is None or isinstance(v, (bool, int, float, str)):
        return v
    return repr(v)


# --------------------------------------------------------------------------- records


class TaskRec:
    """One submission to the (hooked) thread pool."""

    __slots__ = ("n", "id", "kind", "future", "atask", "gate", "entered", "finished", "started", "pool", "exec_key")

    def __init__(self, n: int, pool: Any):
        self.n = n
        self.id: Optional[str] = None
        self.kind = "t"  # 't' thread, 'a' async-thread
        self.future: Optional[_cf.Future] = None
        self.atask: Optional[_real_asyncio.Future] = None
        self.gate = threading.Event()
        self.entered = threading.Event()  # set when node fn entered OR finished (whatever first)
        self.finished = threading.Event()
        self.started = False
        self.pool = pool
        self.exec_key = None


class OrderedDoneSet(set):
    """A set whose iteration order is fixed by the controller (order of a done batch)."""

    def __init__(self, items, order):
        super().__init__(items)
        self._order = list(order)

    def __iter__(self):
        return iter(self._order)


# --------------------------------------------------------------------------- controller


class Controller:
    """Decides every choice of one controlled execution (or of one scenario of several)."""

    def __init__(self, prefix: Tuple[int, ...] = (), *, batch_order: bool = False, spin_bound: int = 64, early: bool = False):
        self.early = early
        self.prefix = tuple(prefix)
        self.pos = 0
        self.choices: List[Tuple[str, int, int]] = []  # (kind, n options, chosen)
        self.state_keys: List[Any] = []
        self.trace: List[tuple] = []
        self.batch_order = batch_order
        self.spin_bound = spin_bound
        self.len_calls = 0
        self.main_ident = threading.get_ident()
        # bookkeeping
        self.nsub = itertools.count()
        self.recs: List[TaskRec] = []
        self.by_future: Dict[Any, TaskRec] = {}
        self.by_atask: Dict[Any, TaskRec] = {}
        self.atasks: Dict[Any, Optional[str]] = {}  # asyncio tasks created through ensure_future -> id
        self.pools: List[Any] = []
        self.serials: Dict[int, int] = {}
        self.keepalive: List[Any] = []
        self.cur_serial = 0
        self.hook_hits = {"submit": 0, "wait_t": 0, "wait_a": 0, "max": 0, "ensure": 0, "run": 0}
        self.exited: set = set()
        self.inflight: set = set()
        self.lock = threading.Lock()
        self.last_ev = _time.monotonic()
        self.in_complete = 0
        self.counting = False
        self.forced = 0
        self.driver = None  # async driver for several executions in one loop (C17)

    # ----- choices
    def choose(self, kind: str, n: int) -> int:
        if n <= 1:
            return 0
        i = self.pos
        self.pos += 1
        if i < len(self.prefix):
            c = self.prefix[i]
            if not 0 <= c < n:
                raise HarnessError(f"replay divergence at choice {i}: {c} not in range({n}) kind={kind}")
        else:
            c = 0
        self.choices.append((kind, n, c))
        self.state_keys.append((kind, frozenset(self.exited), frozenset(self.inflight)))
        return c

    # ----- events
    def ev(self, *e: Any) -> None:
        self.last_ev = _time.monotonic()
        if e[0] != "pick":  # choosing a candidate again and again without anything else happening is a spin
            self.len_calls = 0
        self.trace.append(e)

    def serial_of(self, results: Any) -> int:
        k = id(results)
        s = self.serials.get(k)
        if s is None:
            s = self.cur_serial = next(SERIAL)
            self.serials[k] = s
            self.keepalive.append(results)
        return s

    # ----- node function protocol
    def node_enter(self, label: str, args: tuple, kwargs: dict) -> Tuple[str, int]:
        ident = getattr(tls, "node", None)
        if ident is None:  # decorated function called outside any execution (C16: bare call)
            nid, serial = "<bare>" + label, 0
        else:
            results, nid = ident
            serial = self.serial_of(results)
        rec: Optional[TaskRec] = getattr(tls, "task", None)
        me = threading.get_ident()
        where = "pool" if rec is not None else ("main" if me == self.main_ident else "other")
        if rec is not None:
            rec.id = nid
            rec.exec_key = serial
        with self.lock:
            self.inflight.add(nid)
            self.ev("enter", nid, serial, where, label, args, dict(kwargs))
            if self.driver is not None:
                self.driver.tick_at[(nid, serial, "enter")] = self.driver.ticks
        if rec is not None:
            rec.entered.set()
            rec.gate.wait()
        return nid, serial

    def node_exit(self, nid: str, serial: int, outcome: str) -> None:
        with self.lock:
            self.inflight.discard(nid)
            self.exited.add(nid)
            self.ev("exit", nid, serial, outcome)
            if self.driver is not None:
                self.driver.tick_at[(nid, serial, "exit")] = self.driver.ticks

    # ----- pool
    def register_pool(self, pool: Any) -> None:
        self.pools.append(pool)

    def busy(self, pool: Any) -> int:
        return sum(1 for r in self.recs if r.pool is pool and r.started and not r.finished.is_set())

    def _settle(self) -> None:
        """Wait until every submitted task has either entered its node function, finished, or is queued
        behind a full pool: afterwards exactly one thread (the caller) is running."""
        for rec in self.recs:
            if rec.entered.is_set() or rec.finished.is_set():
                continue
            # not yet entered: is a worker free for it?
            while not (rec.entered.is_set() or rec.finished.is_set()):
                if self.busy(rec.pool) >= rec.pool._max_workers and not rec.started:
                    break  # queued behind a full pool
                rec.entered.wait(0.0005)

    def complete(self, recs: List[TaskRec]) -> None:
        self.in_complete += 1
        try:
            self._complete(recs)
        finally:
            self.in_complete -= 1
            self.last_ev = _time.monotonic()

    def _complete(self, recs: List[TaskRec]) -> None:
        for r in recs:  # one after the other: the order of the exit events is part of the trace
            r.gate.set()
            r.finished.wait()
        futs = [r.future for r in recs if r.future is not None]
        if futs:
            _real_wait(futs, return_when=_cf.ALL_COMPLETED)
        self._settle()

    # ----- teardown
    def drain(self) -> None:
        """Work items still parked when the call is over (the scheduler gave up on them) finish one after the other in a
        fixed order, so that the tail of the trace is deterministic."""
        for _ in range(len(self.recs) + 1):
            live = sorted((r for r in self.recs if r.entered.is_set() and not r.finished.is_set()), key=lambda r: (str(r.id), r.n))
            if not live:
                break
            live[0].gate.set()
            live[0].finished.wait(5)
            if live[0].future is not None:
                try:
                    _real_wait([live[0].future], timeout=5)
                except Exception:
                    pass
            self._settle()

    def teardown(self, wait: bool = True) -> None:
        if wait:
            self.drain()
        for r in self.recs:
            r.gate.set()
        if wait:
            # the pools belong to the library (it may keep one across calls): never shut them down, only let every work item
            # of THIS execution run to its end; a pool the library abandons is collected with its idle workers
            lim = _time.monotonic() + 10
            for r in self.recs:
                if r.future is not None:
                    try:
                        _real_wait([r.future], timeout=max(0.0, lim - _time.monotonic()))
                    except Exception:
                        pass
        else:
            for p in self.pools:
                try:
                    p.shutdown(wait=False, cancel_futures=True)
                except Exception:
                    pass
        self.pools = []


def early_point(c: "Controller", where: str) -> None:
    """A pooled node may really finish at ANY moment, not only while the scheduler waits. The unchanged scheduler cannot
    tell (it only learns of completions through the wait primitives), but code that polls future.done() can: when
    enabled, every scheduler loop iteration and every dispatch decision is a choice point at which any subset of the
    parked nodes finishes early (choice 0: none)."""
    if not c.early or threading.get_ident() != c.main_ident:
        return
    recs = sorted((r for r in c.recs if r.entered.is_set() and not r.finished.is_set() and not r.gate.is_set()),
                  key=lambda r: (str(r.id), r.n))
    if not recs:
        return
    opts = subsets(len(recs))
    i = c.choose("early", len(opts) + 1)
    if i:
        chosen = [recs[j] for j in opts[i - 1]]
        c.ev("early", where, _ids(chosen))
        c.complete(chosen)


CTL: Optional[Controller] = None


def ctl() -> Controller:
    if CTL is None:
        raise HarnessError("no controller installed")
    return CTL


def set_controller(c: Optional[Controller]) -> None:
    global CTL
    CTL = c


# --------------------------------------------------------------------------- subsets


def subsets_in_order(n: int):
    """Non-empty subsets of range(n): by size, then lexicographically (single completions first)."""
    for k in range(1, n + 1):
        yield from itertools.combinations(range(n), k)


_SUBSETS_CACHE: Dict[int, list] = {}


def subsets(n: int) -> list:
    s = _SUBSETS_CACHE.get(n)
    if s is None:
        s = _SUBSETS_CACHE[n] = list(subsets_in_order(n))
    return s


# --------------------------------------------------------------------------- seams


class HookedPool(_RealPool):
    def __init__(self, max_workers=None, *a, **k):
        super().__init__(max_workers, *a, **k)
        ctl().register_pool(self)

    def submit(self, fn, /, *args, **kwargs):
        c = ctl()
        rec = TaskRec(next(c.nsub), self)
        # which node? (only a hint for the trace: the id is fixed at node entry)
        hint = None
        try:
            f = fn
            if hasattr(f, "func") and getattr(f, "args", None):  # functools.partial(ctx.run, xn.execute, ...)
                f = f.args[0]
            hint = getattr(getattr(f, "__self__", None), "id", None)
        except Exception:
            hint = None
        rec.id = hint
        try:
            at = _real_asyncio.current_task()
        except RuntimeError:
            at = None
        if at is not None and at in c.atasks:
            rec.kind = "a"
            rec.atask = at
            c.by_atask[at] = rec
            if hint is None:
                rec.id = c.atasks[at]

        def run():
            tls.task = rec
            rec.started = True
            try:
                return fn(*args, **kwargs)
            finally:
                tls.task = None
                rec.finished.set()
                rec.entered.set()

        c.recs.append(rec)
        c.hook_hits["submit"] += 1
        c.ev("submit", rec.id, rec.kind, rec.n)
        fut = super().submit(run)
        rec.future = fut
        c.by_future[fut] = rec
        c._settle()
        return fut


def _ids(recs: List[TaskRec]) -> tuple:
    return tuple(r.id if r.id is not None else f"?{r.n}" for r in recs)


def _unblock(c: Controller, recs: List[TaskRec]) -> None:
    """None of the awaited work items is running (all queued behind a full pool) although work items the scheduler does NOT
    await still run: only one of those can make progress. Never happens while the scheduler awaits everything it has in
    flight; when it does, the stray item to finish is a choice."""
    while not any(r.entered.is_set() and not r.finished.is_set() for r in recs):
        strays = sorted((r for r in c.recs if r.entered.is_set() and not r.finished.is_set() and r not in recs), key=lambda r: (str(r.id), r.n))
        if not strays:
            return
        r = strays[c.choose("done_stray", len(strays))]
        c.ev("stray", r.id)
        c.complete([r])


def _pick_completion(c: Controller, kind: str, return_when: str, recs: List[TaskRec]) -> List[TaskRec]:
    recs = sorted(recs, key=lambda r: (str(r.id), r.n))
    for r in recs:
        # the work item is over (e.g. the library's wrapper raised before reaching the node function) but the pool thread
        # has not published the future yet: that is a matter of microseconds, not a scheduling choice
        if r.finished.is_set() and r.future is not None and not r.future.done():
            lim = _time.monotonic() + 5
            while not r.future.done() and _time.monotonic() < lim:
                _time.sleep(0.00005)
    already = [r for r in recs if r.finished.is_set() and (r.future is None or r.future.done())]
    c.ev("wait", kind, return_when, _ids(recs), _ids(already))
    if already and return_when == _cf.FIRST_COMPLETED:
        # the real primitive returns at once with what is done: no choice to make
        c.complete(already)
        return already
    if return_when == _cf.FIRST_COMPLETED:
        # only a node that is actually running can finish: a submission still queued behind a full pool cannot
        _unblock(c, recs)
        live = [r for r in recs if r.entered.is_set()] or recs
        opts = subsets(len(live))
        chosen = [live[i] for i in opts[c.choose("done_" + kind, len(opts))]]
        c.complete(chosen)
    elif return_when == _cf.ALL_COMPLETED:
        # observed all at once by the scheduler; completed one by one, in EVERY order (a choice), so that the monitors can
        # evaluate the blocking predicate after every single completion (C08)
        chosen = recs
        todo = list(recs)
        while todo:
            _unblock(c, todo)
            live = [r for r in todo if r.entered.is_set()] or todo
            r = live[c.choose("done_all_" + kind, len(live))]
            todo.remove(r)
            c.complete([r])
            c.ev("partial", kind, r.id)
    else:  # FIRST_EXCEPTION is not used by tawazi
        raise HarnessError(f"unsupported return_when {return_when}")
    return chosen


def _order_batch(c: Controller, kind: str, done_set: set, lookup) -> set:
    """Fix (and, when it matters, choose) the iteration order of a done batch."""
    items = sorted(done_set, key=lambda f: (str(lookup(f).id) if lookup(f) else "", lookup(f).n if lookup(f) else 0))
    if len(items) >= 2 and c.batch_order:
        failing = [f for f in items if f.done() and not f.cancelled() and f.exception() is not None]
        if failing:
            perms = list(itertools.permutations(range(len(items))))
            p = perms[c.choose("order_" + kind, len(perms))]
            items = [items[i] for i in p]
    return OrderedDoneSet(items, items)


def hooked_wait(fs, timeout=None, return_when=_cf.ALL_COMPLETED):
    c = ctl()
    c.hook_hits["wait_t"] += 1
    fs = list(fs)
    recs = []
    for f in fs:
        r = c.by_future.get(f)
        if r is None:
            raise HarnessError("scheduler waits on a future that was not submitted through the hooked pool")
        recs.append(r)
    chosen = _pick_completion(c, "t", return_when, recs)
    done, not_done = _real_wait(fs, timeout=timeout, return_when=return_when)
    c.ev("done", "t", _ids(sorted((c.by_future[f] for f in done), key=lambda r: (str(r.id), r.n))))
    if {c.by_future[f].n for f in done} != {r.n for r in chosen}:
        raise HarnessError(f"thread wait returned {_ids([c.by_future[f] for f in done])}, controller completed {_ids(chosen)}")
    return _order_batch(c, "t", done, c.by_future.get), not_done


async def hooked_asyncio_wait(fs, *, timeout=None, return_when=_real_asyncio.ALL_COMPLETED):
    c = ctl()
    c.hook_hits["wait_a"] += 1
    fs = list(fs)
    for f in fs:
        if f not in c.atasks:
            raise HarnessError("scheduler awaits a task that was not created through the hooked ensure_future")
    # let freshly created tasks reach their pool submission (dispatch != start)
    for _ in range(50):
        if all((f in c.by_atask) or f.done() for f in fs):
            break
        await _real_asyncio.sleep(0)
    else:
        raise HarnessError("async-thread task never reached the pool")
    done_early = [f for f in fs if f not in c.by_atask]
    recs = [c.by_atask[f] for f in fs if f in c.by_atask]
    ghosts = [f for f in fs if f in c.by_atask and f.done() and not c.by_atask[f].finished.is_set()]
    if ghosts:
        # the task the scheduler awaits is over although the node function it stands for is still running (the library
        # reports completion at hand-off): no choice to make, the real primitive returns at once; recorded for the monitors
        grecs = sorted((c.by_atask[f] for f in ghosts), key=lambda r: (str(r.id), r.n))
        c.ev("wait", "a", return_when, _ids(sorted(recs, key=lambda r: (str(r.id), r.n))), _ids(grecs))
        c.ev("ghost", _ids(grecs))
        if return_when != _real_asyncio.FIRST_COMPLETED:
            c.complete([r for r in recs if not r.finished.is_set() and not r.atask.done()])
        done, not_done = await _real_asyncio.wait(fs, timeout=timeout, return_when=return_when)
        c.ev("done", "a", _ids(sorted((c.by_atask[f] for f in done if f in c.by_atask), key=lambda r: (str(r.id), r.n))))
        return _order_batch(c, "a", done, c.by_atask.get), not_done
    if c.driver is not None:
        chosen = await c.driver.park(c, recs, return_when, done_early)
    elif done_early:
        c.ev("wait", "a", return_when, _ids(recs), ("<early>",))
        chosen = []
    else:
        chosen = _pick_completion(c, "a", return_when, recs)
    # the asyncio side needs loop turns to see the pool futures
    deadline = None
    turns = 0
    while not all(r.atask.done() for r in chosen):
        await _real_asyncio.sleep(0)
        turns += 1
        if turns > 20:
            # the pool thread still has to run the future's callbacks (call_soon_threadsafe): give it the GIL
            _time.sleep(0.00005)
            if deadline is None:
                deadline = _time.monotonic() + 10
            elif _time.monotonic() > deadline:
                raise HarnessError("completed async-thread task never became done")
    done, not_done = await _real_asyncio.wait(fs, timeout=timeout, return_when=return_when)
    c.ev("done", "a", _ids(sorted((c.by_atask[f] for f in done if f in c.by_atask), key=lambda r: (str(r.id), r.n))))
    if {c.by_atask[f].n for f in done if f in c.by_atask} != {r.n for r in chosen}:
        raise HarnessError("asyncio wait returned a different set than the controller completed")
    return _order_batch(c, "a", done, c.by_atask.get), not_done


def hooked_ensure_future(coro, *a, **k):
    c = ctl()
    c.hook_hits["ensure"] += 1
    nid = None
    try:
        fr = coro.cr_frame
        func = fr.f_locals.get("func") if fr is not None else None
        nid = getattr(getattr(func, "__self__", None), "id", None)
    except Exception:
        nid = None
    t = _real_asyncio.ensure_future(coro, *a, **k)
    c.atasks[t] = nid
    c.ev("ensure", nid)
    return t


def hooked_run(main, **kw):
    c = ctl()
    c.hook_hits["run"] += 1

    async def wrapper():
        loop = _real_asyncio.get_running_loop()
        loop.set_exception_handler(lambda _l, _c: None)
        # the loop's default executor is owned as well: code that hands nodes to it (asyncio.to_thread,
        # run_in_executor(None, ...)) stays under the controller instead of escaping it
        # deliberately SMALL (a machine with few CPUs): nodes that escape to it instead of the execution's own pool queue up
        dflt = HookedPool(max_workers=2)
        loop.set_default_executor(dflt)
        try:
            return await main
        finally:
            for r in c.recs:
                if r.pool is dflt:
                    r.gate.set()

    return _real_asyncio.run(wrapper(), **kw)


class _AsyncioProxy(types.ModuleType):
    def __init__(self):
        super().__init__("asyncio")

    def __getattr__(self, name):
        return getattr(_real_asyncio, name)


def hooked_max(*args, key=None, **kw):
    c = CTL
    if len(args) != 1 or key is None:
        # max(a, b, ...) or a plain max over numbers: not the scheduler's candidate choice
        return _builtin_max(*args, **({"key": key} if key is not None else {}), **kw)
    items = list(args[0])
    default = kw.get("default")
    if c is None or not items:
        return _builtin_max(items, key=key) if items else default
    c.hook_hits["max"] += 1
    early_point(c, "pick")
    keyed = [(key(x) if key else x, x) for x in items]
    best = _builtin_max(k for k, _ in keyed)
    cands = sorted(x for k, x in keyed if k == best)
    pick = cands[c.choose("tie", len(cands))]
    c.ev("pick", pick, tuple(sorted((x, k) for k, x in keyed)))
    return pick


_installed = False
NUDGE_AFTER_S = 3.0


def _nudge_after() -> float:
    """The stall threshold grows with the load of the machine: a runnable thread that merely gets no CPU is not a stall."""
    try:
        import os
        ratio = os.getloadavg()[0] / max(1, os.cpu_count() or 1)
    except (OSError, AttributeError):
        ratio = 1.0
    return NUDGE_AFTER_S * min(6.0, max(1.0, ratio))


def _nudger() -> None:
    """Safety net against code that blocks on a running node OUTSIDE the owned wait primitives (future.result(), a
    private wait ...): the controller would never complete that node and the execution would sit until the watchdog.
    When nothing has happened for NUDGE_AFTER_S while nodes are parked, the lowest parked node is completed as if it
    had finished by itself ('forced' event). Never triggers on the unchanged scheduler, which reaches a hook within
    microseconds (the threshold is seconds, scaled up with the load average of the machine)."""
    while True:
        _time.sleep(0.1)
        c = CTL
        if c is None or not c.counting or c.in_complete:
            continue
        if _time.monotonic() - c.last_ev < _nudge_after():
            continue
        recs = sorted((r for r in c.recs if r.entered.is_set() and not r.finished.is_set() and not r.gate.is_set()),
                      key=lambda r: (str(r.id), r.n))
        if recs:
            c.forced += 1
            c.trace.append(("forced", recs[0].id))
            c.last_ev = _time.monotonic()
            recs[0].gate.set()


def install() -> None:
    """Install all seams into tawazi (idempotent). Must run before any DAG is executed."""
    global _installed
    if _installed:
        return
    threading.Thread(target=_nudger, daemon=True, name="twzmc-nudger").start()
    import tawazi  # noqa: F401
    import tawazi._dag.helpers as H
    from tawazi._dag.digraph import DiGraphEx
    from tawazi.node.node import ExecNode

    for name in ("wait", "ThreadPoolExecutor", "asyncio", "async_execute"):
        if not hasattr(H, name):
            raise HarnessError(f"dead seam: tawazi._dag.helpers.{name} does not exist any more")
    proxy = _AsyncioProxy()
    proxy.wait = hooked_asyncio_wait
    proxy.ensure_future = hooked_ensure_future
    proxy.run = hooked_run
    H.asyncio = proxy
    H.wait = hooked_wait
    H.ThreadPoolExecutor = HookedPool
    H.max = hooked_max

    orig_execute = ExecNode.execute

    def execute(self, *a, **k):
        results = k.get("results", a[0] if a else None)
        prev = getattr(tls, "node", None)
        tls.node = (results, self.id)
        try:
            return orig_execute(self, *a, **k)
        finally:
            tls.node = prev

    ExecNode.execute = execute

    import networkx as nx

    def counted_len(self):
        c = CTL
        if c is not None and threading.get_ident() == c.main_ident and getattr(c, "counting", False):
            c.len_calls += 1
            early_point(c, "loop")
            if c.len_calls > c.spin_bound:
                raise SpinDetected(f"scheduler loop iterated {c.len_calls} times with nothing happening")
        return nx.DiGraph.__len__(self)

    DiGraphEx.__len__ = counted_len
    _installed = True


# --------------------------------------------------------------------------- watchdog


ALARM_FIRED = [0]


def _alarm(_sig, _frm):
    ALARM_FIRED[0] += 1
    raise HangDetected("execution did not finish in time")


def arm_watchdog(seconds: float) -> None:
    if threading.current_thread() is threading.main_thread():
        signal.signal(signal.SIGALRM, _alarm)
        signal.setitimer(signal.ITIMER_REAL, seconds, seconds)  # periodic: a swallowed alarm comes again


def disarm_watchdog() -> None:
    if threading.current_thread() is threading.main_thread():
        signal.setitimer(signal.ITIMER_REAL, 0)


# --------------------------------------------------------------------------- running one execution


class ExecResult:
    __slots__ = ("trace", "choices", "state_keys", "outcome", "value", "exc", "hook_hits", "late", "forced")

    def __init__(self):
        self.trace: List[tuple] = []
        self.choices: List[Tuple[str, int, int]] = []
        self.state_keys: list = []
        self.outcome = ""  # 'return' | 'raise' | 'spin' | 'hang'
        self.value = None
        self.exc: Optional[BaseException] = None
        self.hook_hits: dict = {}
        self.late = 0
        self.forced = 0


def run_controlled(op, *, prefix=(), is_async=False, batch_order=False, watchdog=10.0, early=False) -> ExecResult:
    """Run `op` (a zero-argument callable; for is_async a zero-argument coroutine function) under a fresh
    controller that replays `prefix` and then takes choice 0 everywhere."""
    install()
    c = Controller(prefix, batch_order=batch_order, early=early)
    set_controller(c)
    res = ExecResult()
    fired0 = ALARM_FIRED[0]
    arm_watchdog(watchdog)
    try:
        c.counting = True
        try:
            if is_async:
                async def main():
                    loop = _real_asyncio.get_running_loop()
                    loop.set_exception_handler(lambda _l, _c: None)
                    loop.set_default_executor(HookedPool(max_workers=2))
                    try:
                        v = await op()
                        c.ev("ret")
                        return ("return", v, None)
                    except (HarnessError, HangDetected):
                        raise
                    except SpinDetected as e:
                        return ("spin", None, e)
                    except BaseException as e:  # noqa: BLE001
                        c.ev("raise", type(e).__name__)
                        return ("raise", None, e)
                    finally:
                        c.counting = False
                        # keep the loop turning so that orphan tasks show what they do
                        for _ in range(6):
                            await _real_asyncio.sleep(0)
                        c._settle()
                        c.drain()
                        for r in c.recs:
                            r.gate.set()
                        pend = [t for t in c.atasks if not t.done()]
                        if pend:
                            await _real_asyncio.wait(pend)
                        for t in c.atasks:
                            if t.done() and not t.cancelled():
                                t.exception()

                res.outcome, res.value, res.exc = _real_asyncio.run(main())
            else:
                try:
                    v = op()
                    c.ev("ret")
                    res.outcome, res.value = "return", v
                except (HarnessError, HangDetected):
                    raise
                except SpinDetected as e:
                    res.outcome, res.exc = "spin", e
                except BaseException as e:  # noqa: BLE001
                    c.ev("raise", type(e).__name__)
                    res.outcome, res.exc = "raise", e
                finally:
                    c.counting = False
                    c._settle()
        except HangDetected as e:
            res.outcome, res.exc = "hang", e
        except RuntimeError as e:
            # the alarm's exception can land inside threading.Condition.wait and surface as a lock-state RuntimeError
            if ALARM_FIRED[0] > fired0:
                res.outcome, res.exc = "hang", e
            else:
                raise
    finally:
        disarm_watchdog()
        c.counting = False
        c.teardown(wait=(res.outcome != "hang"))  # a deadlocked worker of a hung execution is abandoned, not joined
        set_controller(None)
    if c.pos < len(c.prefix):
        raise HarnessError(f"replay divergence: only {c.pos} of {len(c.prefix)} prefix choices were consumed")
    res.trace, res.choices, res.state_keys, res.hook_hits = c.trace, c.choices, c.state_keys, c.hook_hits
    res.forced = c.forced
    return res


# --------------------------------------------------------------------------- harness node functions

IN_FLIGHT: Dict[str, Any] = {}  # node id -> callable run once inside that node's function (while its call is in flight)
FAIL: Dict[str, str] = {}  # node id -> 'V' | 'U'  (set by the check before running a program)
RET_NONE: set = set()  # node ids whose function returns None
RET_OBJ: set = set()  # node ids whose function returns a Resource-like object: identity matters, copying it is an error


class Handle:
    """What a setup node typically returns: a loaded model / connection. It holds a lock, so it can neither be deep-copied nor pickled,
    and it is only equal to itself."""

    def __init__(self, label, serial):
        self.label, self.serial = label, serial
        self.lock = threading.Lock()

    def __repr__(self):
        return f"<Handle {self.label}#{self.serial} at {id(self):#x}>"
FAIL_IF_ARG: Dict[str, Any] = {}  # node id -> value: the node raises when one of its positional arguments equals it


class UserError(Exception):
    """A user-defined exception type raised by failing harness nodes."""


def node_body(fname: str, a: tuple, k: dict):
    c = ctl()
    nid, serial = c.node_enter(fname, a, k)
    f = FAIL.get(nid)
    if f is None and nid in FAIL_IF_ARG and any(type(x) is type(FAIL_IF_ARG[nid]) and x == FAIL_IF_ARG[nid] for x in a):
        f = "V"
    if f is not None:
        c.node_exit(nid, serial, "raise")
        raise (ValueError if f == "V" else UserError)(f"boom in {nid}")
    act = IN_FLIGHT.pop(nid, None)
    if act is not None:
        act()  # something the scenario wants done WHILE this call is in flight (e.g. a reconfiguration of the DAG object), once
    c.node_exit(nid, serial, "ok")
    if nid in RET_NONE:
        return None
    if nid in RET_OBJ:
        return Handle(nid, serial)
    return Tok(nid, serial)


def lib_call(name: str, fn, a: tuple, k: dict):
    """Body of the decorated library functions of the PROG engine: traced, gated like node_body, then the pure function."""
    c = ctl()
    nid, serial = c.node_enter(name, a, k)
    try:
        r = fn(*a, **k)
    except BaseException:
        c.node_exit(nid, serial, "raise")
        raise
    c.node_exit(nid, serial, "ok")
    return r


# --------------------------------------------------------------------------- several executions in one loop (C17)


class HarnessStarved(Exception):
    pass


class Driver:
    """When several scheduler coroutines share one event loop, an asyncio-future wait parks its coroutine here; the
    driver (a sibling coroutine) runs whenever every unfinished execution is parked and chooses which execution is
    served next and which of its pending async-thread nodes complete."""

    def __init__(self, c: Controller, nexec: int):
        self.c = c
        self.active = nexec
        self.parked: List[tuple] = []
        self.ticks = 0
        self.tick_at: Dict[tuple, int] = {}
        self.stop = False

    async def park(self, c: Controller, recs: List[TaskRec], return_when: str, done_early: list) -> List[TaskRec]:
        recs = sorted(recs, key=lambda r: (str(r.id), r.n, r.exec_key or 0))
        already = [r for r in recs if r.finished.is_set()]
        c.ev("wait", "a", return_when, _ids(recs), _ids(already) if already else (("<early>",) if done_early else ()))
        if (already and return_when == _cf.FIRST_COMPLETED) or done_early:
            c.complete(already)
            return already
        fut = _real_asyncio.get_running_loop().create_future()
        self.parked.append((fut, recs, return_when))
        return await fut

    async def ticker(self) -> None:
        while not self.stop:
            self.ticks += 1
            await _real_asyncio.sleep(0)

    async def run(self) -> None:
        c = self.c
        while self.active > 0:
            for _ in range(100000):
                if self.active == 0 or len(self.parked) >= self.active:
                    break
                await _real_asyncio.sleep(0)
            else:
                raise HarnessError("driver: executions neither park nor finish")
            if self.active == 0:
                break
            options = []
            for pi, (fut, recs, rw) in enumerate(self.parked):
                # only a node that is running can finish: one queued behind a full pool (never the case while every
                # execution has its own workers) cannot be chosen
                live = [j for j, r in enumerate(recs) if r.entered.is_set() or r.finished.is_set()]
                if rw == _cf.FIRST_COMPLETED:
                    for sub in subsets(len(live)):
                        options.append((pi, tuple(live[j] for j in sub)))
                elif len(live) == len(recs):
                    options.append((pi, tuple(range(len(recs)))))
            if not options:
                waiting = [r for (_f, recs, _rw) in self.parked for r in recs if not r.entered.is_set()]
                c.ev("starved", _ids(waiting))
                # no awaited node can ever finish: fail the awaits instead of hanging the exploration
                for fut, recs, rw in self.parked:
                    fut.set_exception(HarnessStarved(f"awaited nodes {_ids(recs)} cannot start: the workers are held by other executions"))
                self.parked = []
                await _real_asyncio.sleep(0)
                continue
            # the loop is free while async-thread nodes are in flight: siblings (the ticker) make progress
            t0 = self.ticks
            for _ in range(3):
                await _real_asyncio.sleep(0)
            c.ev("ticks", self.ticks - t0)
            pi, sub = options[c.choose("drv", len(options))]
            fut, recs, rw = self.parked.pop(pi)
            chosen = [recs[j] for j in sub]
            c.ev("serve", recs[0].exec_key if recs else None, _ids(chosen))
            c.complete(chosen)
            fut.set_result(chosen)
            await _real_asyncio.sleep(0)
