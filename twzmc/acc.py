"""Per-worker accumulator of coverage counts, samples and violations."""
from __future__ import annotations

import hashlib
import json
import time
from typing import Any, Dict, List

from .harness import jsonable


def h(obj: Any) -> int:
    return int.from_bytes(hashlib.blake2b(repr(obj).encode(), digest_size=8).digest(), "big")


class StopShard(Exception):
    """The tree under test stalls again and again (hangs / blocks outside the owned primitives): stop exploring."""


class Acc:
    MAX_VIOL_PER_SIG = 2
    MAX_STALLS = 6

    def __init__(self, check_id: str, shard: int, nshards: int, budget_s: float):
        self.check_id, self.shard, self.nshards = check_id, shard, nshards
        self.t0 = time.time()
        self.budget_s = budget_s
        self.cases = 0
        self.evaluations = 0  # executions / evaluated cases
        self.states = 0
        self.transitions = 0
        self.nontrivial: set = set()
        self.outcomes: set = set()
        self.samples: List[Any] = []
        self.violations: List[dict] = []
        self.viol_counts: Dict[str, int] = {}
        self.hook_hits: Dict[str, int] = {}
        self.capped_at = None
        self.extra: Dict[str, Any] = {}
        self.selfcheck = 0
        self.stalls = 0

    def out_of_time(self) -> bool:
        return time.time() - self.t0 > self.budget_s

    def stall(self, res) -> None:
        """Call for every execution result: counts executions that hung or needed forced completions."""
        if getattr(res, "outcome", "") == "hang" or getattr(res, "forced", 0):
            self.stalls += 1
            if self.stalls >= self.MAX_STALLS:
                self.capped_at = self.cases
                self.extra["stopped_after_stalls"] = self.stalls
                raise StopShard()

    def add_hits(self, hits: Dict[str, int]) -> None:
        for k, v in hits.items():
            self.hook_hits[k] = self.hook_hits.get(k, 0) + v

    def mark_nontrivial(self, key: Any) -> None:
        self.nontrivial.add(h(key))

    def outcome(self, key: Any) -> None:
        self.outcomes.add(h(key))

    def sample(self, obj: Any, limit: int = 3) -> None:
        if len(self.samples) < limit:
            self.samples.append(jsonable(obj))

    def violation(self, v: dict, case: Any, prefix=(), trace=None, source: str = "") -> None:
        key = v["kind"] + "|" + json.dumps(jsonable(v.get("sig", {})), sort_keys=True)
        n = self.viol_counts.get(key, 0)
        self.viol_counts[key] = n + 1
        if n < self.MAX_VIOL_PER_SIG:
            self.violations.append({
                "kind": v["kind"], "msg": v["msg"], "sig": jsonable(v.get("sig", {})), "case": jsonable(case),
                "prefix": list(prefix), "trace": jsonable(trace) if trace is not None else None, "source": source,
                "cfg_variant": getattr(self, "cfg_variant", 0),
            })

    def dump(self) -> dict:
        return {
            "shard": self.shard, "cases": self.cases, "evaluations": self.evaluations, "states": self.states,
            "transitions": self.transitions, "nontrivial": len(self.nontrivial), "outcomes": len(self.outcomes),
            "samples": self.samples, "violations": self.violations, "viol_counts": self.viol_counts,
            "hook_hits": self.hook_hits, "capped_at": self.capped_at, "extra": self.extra,
            "wall_s": time.time() - self.t0, "selfcheck": self.selfcheck,
        }
