"""Stateless DFS over choice sequences (DESIGN 2.2): replay a prefix, then choice 0 everywhere; every later
choice point with k alternatives spawns k-1 new prefixes. Only tie-breaks (kind 'tie') and done-batch orders
(kind 'order_*') are subject to a deviation budget; completion subsets are never bounded."""
from __future__ import annotations

from typing import Callable, Iterator, Optional, Tuple

BOUNDED_KINDS = ("tie", "order_t", "order_a")
EARLY_KINDS = ("early",)


def explore(run_one: Callable[[Tuple[int, ...]], "object"], tie_budget: Optional[int] = None,
            max_execs: Optional[int] = None, early_budget: Optional[int] = 1) -> Iterator[Tuple[Tuple[int, ...], object]]:
    """Yields (prefix, result) for every execution. `result.choices` = [(kind, n, chosen)...]."""
    stack = [()]
    n = 0
    while stack:
        prefix = stack.pop()
        res = _run_with_retry(run_one, prefix)
        n += 1
        yield prefix, res
        if max_execs is not None and n >= max_execs:
            return
        ch = res.choices
        taken = tuple(c for _, _, c in ch)
        # deviations used by the prefix
        used = sum(1 for (k, _, c) in ch[: len(prefix)] if k in BOUNDED_KINDS and c != 0)
        used_e = sum(1 for (k, _, c) in ch[: len(prefix)] if k in EARLY_KINDS and c != 0)
        new = []
        for i in range(len(prefix), len(ch)):
            kind, k, c = ch[i]
            if kind in BOUNDED_KINDS and tie_budget is not None and used + 1 > tie_budget:
                continue
            if kind in EARLY_KINDS and early_budget is not None and used_e + 1 > early_budget:
                continue
            for alt in range(1, k):
                new.append(taken[:i] + (alt,))
        # DFS order: simplest deviations first
        stack.extend(reversed(new))


RETRIES = [0]  # executions repeated because a recorded prefix could not be replayed (reported in the evidence)


def _run_with_retry(run_one, prefix):
    """A prefix recorded by one execution must be replayable by the next; if it is not (a timing artefact of an overloaded
    machine: the stall detector fired in one of the two), the execution is repeated before the divergence is declared real."""
    for attempt in range(3):
        try:
            return run_one(prefix)
        except Exception as e:  # noqa: BLE001
            if "replay divergence" not in str(e) or attempt == 2:
                raise
            RETRIES[0] += 1
            import time
            time.sleep(0.5)


class StateCounter:
    """Distinct canonical scheduler states / transitions of one case (program + configuration)."""

    def __init__(self):
        self.states = set()
        self.trans = set()
        self.outcomes = set()

    def add(self, res) -> None:
        prev = ("init",)
        for key, (kind, n, c) in zip(res.state_keys, res.choices):
            self.states.add(key)
            self.trans.add((prev, key))
            prev = (key, c)
        self.trans.add((prev, "end"))
        self.states.add(("end", res.outcome))

    def counts(self):
        return len(self.states), len(self.trans)
