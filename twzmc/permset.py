"""Owned iteration order of the sets built inside tawazi._dag.digraph (C07): `set` is injected as a module global
of that module; while a PermCtl is active every iteration over such a set is a choice point over its permutations."""
from __future__ import annotations

import builtins
import itertools
from typing import List, Optional, Tuple

_real_set = builtins.set


class PermCtl:
    def __init__(self, prefix: Tuple[int, ...] = ()):
        self.prefix = tuple(prefix)
        self.pos = 0
        self.choices: List[Tuple[str, int, int]] = []
        self.state_keys: list = []
        self.outcome = "built"

    def choose(self, n: int, key) -> int:
        if n <= 1:
            return 0
        i = self.pos
        self.pos += 1
        c = self.prefix[i] if i < len(self.prefix) else 0
        if c >= n:
            raise RuntimeError("replay divergence in PermCtl")
        self.choices.append(("perm", n, c))
        self.state_keys.append(("perm", key))
        return c


PERM: Optional[PermCtl] = None


def perms_of(k: int) -> list:
    if k <= 4:
        return list(itertools.permutations(range(k)))
    out = [tuple(range(k)), tuple(reversed(range(k)))]
    for i, j in itertools.combinations(range(k), 2):
        p = list(range(k))
        p[i], p[j] = p[j], p[i]
        out.append(tuple(p))
    for r in range(1, k):
        out.append(tuple((x + r) % k for x in range(k)))
    seen = []
    for p in out:
        if p not in seen:
            seen.append(p)
    return seen


class PermSet(_real_set):
    def __iter__(self):
        items = sorted(_real_set.__iter__(self), key=repr)
        c = PERM
        if c is None or len(items) <= 1:
            return iter(items)
        ps = perms_of(len(items))
        p = ps[c.choose(len(ps), tuple(items))]
        return iter([items[i] for i in p])


def hooked_set(*a):
    if PERM is None:
        return _real_set(*a)
    return PermSet(*a)


def install() -> None:
    import tawazi._dag.digraph as D

    D.set = hooked_set
