"""PROG engine driver: IR program -> tawazi DAG -> (all schedules | default schedule) vs the reference interpreter."""
from __future__ import annotations

import json
import os
from typing import Any, Dict, List, Optional

from . import harness as H
from . import ir
from .build import exec_source
from .explore import StateCounter, explore
from .monitors import V

SUBSCRIPT_NONE = ("'NoneType' object is not subscriptable", "__getitem__")


def root_cause(e: BaseException) -> BaseException:
    seen = 0
    while e.__cause__ is not None and seen < 5:
        e = e.__cause__
        seen += 1
    return e


def exc_compatible(ref_exc: BaseException, got: BaseException) -> bool:
    rc = root_cause(got)
    if type(rc) is type(ref_exc):
        return True
    # None[...]: plain Python says TypeError, obj.__getitem__ on None says AttributeError
    if isinstance(ref_exc, TypeError) and "subscriptable" in str(ref_exc) and isinstance(rc, (AttributeError, TypeError)):
        return True
    # a missing DAG argument is reported by tawazi's own exception type
    if isinstance(ref_exc, TypeError) and "missing argument" in str(ref_exc) and type(rc).__name__ == "TawaziArgumentException":
        return True
    if isinstance(ref_exc, TypeError) and "too many" in str(ref_exc) and isinstance(rc, TypeError):
        return True
    return False


def call_sites(d) -> List[str]:
    """ids of the user call sites (and operator nodes) of a built DAG - what a user would name in a config file."""
    return [i for i in d.exec_nodes if ">!>" not in i and "<!<" not in i]


def apply_config(d, kind: str, tmpdir: str) -> None:
    ids = call_sites(d)
    if kind == "seq_dict":
        d.config_from_dict({"nodes": {i: {"is_sequential": True} for i in ids}, "max_concurrency": 2})
    elif kind == "rev_yaml":
        import yaml
        path = os.path.join(tmpdir, "cfg.yaml")
        with open(path, "w") as f:
            yaml.safe_dump({"nodes": {i: {"priority": len(ids) - k} for k, i in enumerate(ids)}, "max_concurrency": 2}, f)
        d.config_from_yaml(path)
    elif kind == "asc_json":
        path = os.path.join(tmpdir, "cfg.json")
        with open(path, "w") as f:
            json.dump({"nodes": {i: {"priority": k, "is_sequential": k % 2 == 0} for k, i in enumerate(ids)}, "max_concurrency": 3}, f)
        d.config_from_json(path)


CONFIGS = ["mc1", "mc3", "seq_dict", "rev_yaml", "asc_json", "res_rot"]
RES_ROT = ["Resource.main_thread", "Resource.async_thread", "Resource.thread"]


def build(prog: dict, config: str, is_async: bool, local_subs: bool = False):
    mc = {"mc1": 1, "mc3": 3, "seq_dict": 1, "rev_yaml": 1, "asc_json": 1, "res_rot": 2}[config]
    per_site = None
    if config == "res_rot":
        per_site = {si: {"resource": RES_ROT[si % 3], "priority": si % 2} for si, st in enumerate(prog["body"]) if st["k"] == "call"}
    src = ir.source(prog, mc=mc, is_async=is_async, per_site=per_site, local_subs=local_subs)
    ns = exec_source(src)
    d = ns[prog["name"]]
    if config in ("seq_dict", "rev_yaml", "asc_json"):
        apply_config(d, config, os.environ.get("VERIF_TMP", "/tmp"))
    return d, ns, src


def compare(acc, case, prog, args, res, refres, src, prefix=(), check_calls=True) -> bool:
    kind, refval, refcalls = refres
    ok = True
    if kind == "ok":
        if res.outcome != "return":
            acc.violation(V("raises_instead_of_value", f"args={args}: reference returns {refval!r}, DAG call raised {res.exc!r}",
                            exc=type(res.exc).__name__), case, prefix, res.trace, src)
            return False
        if not ir.same(res.value, refval):
            acc.violation(V("wrong_value", f"args={args}: DAG returned {res.value!r}, reference {refval!r}"), case, prefix, res.trace, src)
            ok = False
    else:
        if res.outcome == "return":
            acc.violation(V("value_instead_of_raise", f"args={args}: reference raises {refval!r}, DAG call returned {res.value!r}",
                            exc=type(refval).__name__), case, prefix, res.trace, src)
            return False
        if res.outcome == "raise" and not exc_compatible(refval, res.exc):
            acc.violation(V("wrong_exception", f"args={args}: reference raises {refval!r}, DAG call raised {res.exc!r} (root cause {root_cause(res.exc)!r})",
                            ref=type(refval).__name__, got=type(root_cause(res.exc)).__name__), case, prefix, res.trace, src)
            ok = False
    if check_calls and kind == "ok":
        got = sorted((e[4], repr(tuple(e[5])), repr(tuple(sorted(e[6].items())))) for e in res.trace if e[0] == "enter")
        want = sorted((fn, repr(a), repr(kw)) for fn, a, kw in refcalls)
        if got != want:
            acc.violation(V("wrong_calls", f"args={args}: library calls made {got}, reference {want}"), case, prefix, res.trace, src)
            ok = False
    return ok


def run_program(acc, case: dict, prog: dict, inputs: List[tuple], configs: List[str], flavours=(False, True),
                explore_all: bool = False, tie_budget: Optional[int] = 1, check_calls: bool = True, max_execs: int = 400,
                stateful_setup: bool = False, local_subs: bool = False) -> None:
    """Evaluate `prog` on every input under every config / flavour. explore_all: every schedule (mc3 config), else default."""
    acc.cases += 1
    for config in configs:
        for is_async in flavours:
            try:
                d, ns, src = build(prog, config, is_async, local_subs)
            except Exception as e:  # noqa: BLE001
                acc.violation(V("build_failed", f"building the DAG raised {e!r} (config {config}, is_async={is_async})", exc=type(e).__name__),
                              case, (), None, ir.source(prog))
                return
            setup_cache: Dict = {}
            for args in inputs:
                refres = ir.ref_eval(prog, args, setup_cache if stateful_setup else None)
                if is_async:
                    async def op(args=args):
                        return await d(*args)
                else:
                    def op(args=args):
                        return d(*args)
                sc = StateCounter()
                if explore_all and config in ("mc3", "res_rot"):
                    def run_one(prefix):
                        return H.run_controlled(op, prefix=prefix, is_async=is_async)
                    n = 0
                    for prefix, res in explore(run_one, tie_budget, max_execs):
                        n += 1
                        acc.evaluations += 1
                        acc.stall(res)
                        sc.add(res)
                        compare(acc, dict(case, config=config, is_async=is_async, args=list(args)), prog, args, res, refres, src,
                                tuple(c for _, _, c in res.choices), check_calls)
                    if n > 1:
                        acc.mark_nontrivial((repr(case), config, is_async, args, "schedules"))
                else:
                    res = H.run_controlled(op, is_async=is_async)
                    acc.evaluations += 1
                    acc.stall(res)
                    sc.add(res)
                    compare(acc, dict(case, config=config, is_async=is_async, args=list(args)), prog, args, res, refres, src, (), check_calls)
                s, t = sc.counts()
                acc.states += s
                acc.transitions += t
                acc.outcome((refres[0], repr(refres[1])))
            # one more step on the SAME DAG object: an executor run that passes every argument explicitly, then a plain call that
            # relies on the defaults - the call must not see what the executor was given
            full = [a for a in inputs if len(a) == len(prog["params"])]
            short = [a for a in inputs if len(a) < len(prog["params"])]
            if full and short and any(p_[1] != ir.NODEFAULT for p_ in prog["params"]):
                a_full, a_short = full[-1], short[0]
                if is_async:
                    async def op_e(a=a_full):
                        return await d.executor()(*a)

                    async def op_c(a=a_short):
                        return await d(*a)
                else:
                    def op_e(a=a_full):
                        return d.executor()(*a)

                    def op_c(a=a_short):
                        return d(*a)
                for op_, a_, what in ((op_e, a_full, "executor run"), (op_c, a_short, "call after an executor run with explicit arguments")):
                    ref_ = ir.ref_eval(prog, a_, setup_cache if stateful_setup else None)
                    res_ = H.run_controlled(op_, is_async=is_async)
                    acc.evaluations += 1
                    compare(acc, dict(case, config=config, is_async=is_async, args=list(a_), after_executor=list(a_full), step=what), prog, a_, res_, ref_, src, (),
                            check_calls)


def replay_built(a, v):
    """Replays one recorded (program, configuration, flavour, arguments, choice prefix) on a freshly built DAG - including the
    executor run that preceded the call when the violation was found in the 'executor run, then defaulted call' step."""
    c = v["case"]
    prog = c["prog"]
    d, ns, src = build(prog, c["config"], c["is_async"], c.get("local_subs", False))
    args, is_async = tuple(c["args"]), c["is_async"]

    def mk(kind, a_):
        if is_async:
            async def op():
                return await (d.executor()(*a_) if kind == "e" else d(*a_))
        else:
            def op():
                return d.executor()(*a_) if kind == "e" else d(*a_)
        return op

    step = c.get("step") or ""
    if c.get("after_executor") is not None and step.startswith("call"):
        H.run_controlled(mk("e", tuple(c["after_executor"])), is_async=is_async)
    res = H.run_controlled(mk("e" if step == "executor run" else "c", args), prefix=tuple(v["prefix"]), is_async=is_async)
    compare(a, c, prog, args, res, ir.ref_eval(prog, args), src)
    return a.violations, res.trace
