"""Configuration variants: the library's defaults (environment read when tawazi is imported, `cfg` changed afterwards) differ
from the stock ones in some shards. Every attribute of every scheduled node is spelled out by the generated programs, so the
behaviour must be the same under every variant: an explicit attribute wins over whatever the configuration provides.

  0  stock configuration
  1  imported with TAWAZI_IS_SEQUENTIAL=true, TAWAZI_DEFAULT_RESOURCE=main-thread; cfg set back to False / thread afterwards
  2  imported with TAWAZI_IS_SEQUENTIAL=true, TAWAZI_DEFAULT_RESOURCE=main-thread and left so
"""
from __future__ import annotations

import os


def variant() -> int:
    return int(os.environ.get("VERIF_CFG_VARIANT", "0") or 0)


def of_shard(k: int) -> int:
    return {1: 1, 3: 2}.get(k % 4, 0)


def pre_import() -> None:
    if variant() in (1, 2):
        os.environ["TAWAZI_IS_SEQUENTIAL"] = "true"
        os.environ["TAWAZI_DEFAULT_RESOURCE"] = "main-thread"


def post_import() -> None:
    v = variant()
    if v in (1, 2):
        from tawazi import Resource, cfg
        if cfg.TAWAZI_IS_SEQUENTIAL is not True or cfg.TAWAZI_DEFAULT_RESOURCE != Resource.main_thread:
            raise RuntimeError("dead seam: the TAWAZI_IS_SEQUENTIAL / TAWAZI_DEFAULT_RESOURCE environment is not read at import any more")
        if v == 1:
            cfg.TAWAZI_IS_SEQUENTIAL = False
            cfg.TAWAZI_DEFAULT_RESOURCE = Resource.thread
