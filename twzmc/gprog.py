"""Graph programs: labelled DAG shapes with attributes -> Python source using @xn/@dag, plus the
reference functions (plain set algebra, never importing tawazi) the monitors compare against."""
from __future__ import annotations

import itertools
from dataclasses import dataclass, field, replace
from typing import Any, Dict, FrozenSet, Iterable, List, Optional, Sequence, Set, Tuple

NOFLAG = "<noflag>"
NODEFAULT = "<nodefault>"
RES_SRC = {"t": "Resource.thread", "a": "Resource.async_thread", "m": "Resource.main_thread"}


class _RefError(Exception):
    pass


@dataclass(frozen=True)
class Edge:
    src: int  # >=0: node index; <0: DAG parameter -1-src
    kind: str = "pos"  # 'pos' | 'kw' | 'flag'
    path: tuple = ()


@dataclass(frozen=True)
class GNode:
    edges: Tuple[Edge, ...] = ()
    res: str = "t"
    seq: bool = False
    prio: int = 0
    setup: bool = False
    debug: bool = False
    fail: Optional[str] = None  # 'V' ValueError | 'U' user-defined Exception subclass
    tag: Any = None
    const_flag: Any = NOFLAG
    fn: Optional[str] = None  # shared function name (reuse); default: own function n<i>
    consts: tuple = ()  # constant positional arguments (after the 'pos' edges)
    unpack: Optional[int] = None
    retnone: bool = False  # the node function returns None (a legal result: executed for its side effect)


def kw_items(n):
    """(keyword name, edge) of the keyword edges of a node; parallel keyword edges from one producer get distinct names."""
    seen = {}
    out = []
    for e in n.edges:
        if e.kind != "kw":
            continue
        base = f"k{e.src}" if e.src >= 0 else f"p{-1 - e.src}"
        seen[base] = seen.get(base, 0) + 1
        out.append((base if seen[base] == 1 else f"{base}_{seen[base]}", e))
    return out


@dataclass(frozen=True)
class GProg:
    nodes: Tuple[GNode, ...]
    mc: int = 1
    is_async: bool = False
    params: Tuple[Tuple[str, Any], ...] = ()  # (name, default | NODEFAULT)
    falsy: FrozenSet[Tuple[str, tuple]] = frozenset()  # (node id, path) whose token is falsy
    name: str = "d"
    decl: str = "deco"  # how nodes are declared: "deco" = @xn(...) def f ; "call" = f = xn(f, ...) (function and options in one call)

    # ------------------------------------------------------------------ ids
    def ids(self) -> List[str]:
        out: List[str] = []
        count: Dict[str, int] = {}
        for i, n in enumerate(self.nodes):
            base = n.fn or f"n{i}"
            k = count.get(base, 0)
            count[base] = k + 1
            out.append(base if k == 0 else f"{base}<<{k}>>")
        return out

    def param_id(self, k: int) -> str:
        return f"{self.name}>!>{self.params[k][0]}"

    # ------------------------------------------------------------------ graph algebra
    def deps(self, i: int) -> Set[int]:
        return {e.src for e in self.nodes[i].edges if e.src >= 0}

    def succ(self, i: int) -> Set[int]:
        return {j for j in range(len(self.nodes)) if i in self.deps(j)}

    def desc(self, i: int) -> Set[int]:
        seen: Set[int] = set()
        todo = [i]
        while todo:
            x = todo.pop()
            for j in self.succ(x):
                if j not in seen:
                    seen.add(j)
                    todo.append(j)
        return seen

    def anc(self, i: int) -> Set[int]:
        seen: Set[int] = set()
        todo = [i]
        while todo:
            x = todo.pop()
            for j in self.deps(x):
                if j not in seen:
                    seen.add(j)
                    todo.append(j)
        return seen

    def cp_ref(self, i: int) -> int:
        """own priority + sum of the priorities of the distinct descendants (full DAG)."""
        return self.nodes[i].prio + sum(self.nodes[j].prio for j in self.desc(i))

    def is_root(self, i: int) -> bool:
        """In-degree 0 in the id graph: no node dependency, no DAG argument, no constant holder."""
        n = self.nodes[i]
        return not n.edges and not n.consts and n.const_flag == NOFLAG

    # ------------------------------------------------------------------ selection closure (Appendix A)
    def closure(self, R: Optional[Iterable[int]], X: Optional[Iterable[int]], T: Optional[Iterable[int]]):
        """Returns (set of node indices, None) or (None, reason) when ValueError is demanded, or
        ('either', set) when the statement accepts both."""
        N = len(self.nodes)
        G = set(range(N))
        if R is not None:
            R = set(R)
            if any(not self.is_root(r) for r in R):
                return None, "non-root in R"
            G1 = set(R)
            for r in R:
                G1 |= self.desc(r)
        else:
            G1 = G
        if X is not None:
            X = set(X)
            G2 = set(G1)
            for x in X:
                G2 -= {x} | self.desc(x)
        else:
            G2 = G1
        if T is not None:
            T = set(T)
            if not T <= G2:
                if T <= G1 or R is None:
                    return None, "target removed by exclusion"
                # cut away by R only (possibly together with X): accepted both ways when the
                # part of T that R keeps is untouched by X
                return "either", None
            G3 = set(T)
            for t in T:
                G3 |= self.anc(t)
            G3 &= G2
        else:
            G3 = G2
        return G3, None

    # ------------------------------------------------------------------ reference run
    def ref_run(self, selected: Optional[Set[int]] = None, pre: Optional[Dict[int, int]] = None,
                debug_on: bool = False, args: Optional[Sequence[Any]] = None, serial_sym: Any = "S"):
        """Reference evaluation. Returns dict i -> ('run'|'deact'|'skip'|'pre', value, (args, kwargs))
        where values/args are symbolic: ('tok', id, serial_sym_or_old_serial, path) | ('const', v) | None."""
        ids = self.ids()
        N = len(self.nodes)
        if selected is None:
            selected = set(range(N))
        pre = pre or {}
        out: Dict[int, tuple] = {}
        pvals = []
        for k, (nm, d) in enumerate(self.params):
            if args is not None and k < len(args):
                pvals.append(("const", args[k]))
            elif d != NODEFAULT:
                pvals.append(("const", d))
            else:
                pvals.append(("missing", nm))

        def val(e: Edge):
            if e.src < 0:
                v = pvals[-1 - e.src]
                return v
            st = out[e.src]
            if st[0] in ("run", "pre"):
                if self.nodes[e.src].retnone:
                    if e.path:
                        raise _RefError(e.src)
                    return None
                _, i_d, ser, _p = st[1]
                return ("tok", i_d, ser, tuple(e.path))
            if st[0] in ("deact", "error") and e.path:
                # indexing the None of a deactivated call: the plain Python evaluation raises TypeError
                raise _RefError(e.src)
            return None

        def truthy(v) -> bool:
            if v is None:
                return False
            if v[0] == "const":
                x = v[1]
                return bool(x)
            if v[0] == "tok":
                return (v[1], v[3]) not in self.falsy
            return False

        for i, n in enumerate(self.nodes):
            if i in pre:
                out[i] = ("pre", ("tok", ids[i], pre[i], ()), None)
                continue
            if i not in selected or (n.debug and not debug_on):
                out[i] = ("skip", None, None)
                continue
            try:
                a = [val(e) for e in n.edges if e.kind == "pos"] + [("const", c) for c in n.consts]
                kw = {name: val(e) for name, e in kw_items(n)}
                active = True
                for e in n.edges:
                    if e.kind == "flag":
                        active = truthy(val(e))
            except _RefError:
                out[i] = ("error", None, None)
                continue
            if n.const_flag != NOFLAG:
                active = bool(n.const_flag)
            if not active:
                out[i] = ("deact", None, (a, kw))
            else:
                out[i] = ("run", ("tok", ids[i], serial_sym, ()), (a, kw))
        return out

    # ------------------------------------------------------------------ source
    def source(self, returns: str = "all") -> str:
        ids = self.ids()
        L = ["from tawazi import xn, dag, Resource", "import twzmc.harness as H", ""]
        seen_fn: Set[str] = set()
        for i, n in enumerate(self.nodes):
            fn = n.fn or f"n{i}"
            if fn in seen_fn:
                continue
            seen_fn.add(fn)
            attrs = [f"priority={n.prio}", f"is_sequential={n.seq}", f"resource={RES_SRC[n.res]}"]
            if n.setup:
                attrs.append("setup=True")
            if n.debug:
                attrs.append("debug=True")
            if n.tag is not None:
                attrs.append(f"tag={n.tag!r}")
            if n.unpack is not None:
                attrs.append(f"unpack_to={n.unpack}")
            if self.decl == "call":
                L.append(f"def {fn}(*a, **k):")
                L.append(f"    return H.node_body({fn!r}, a, k)")
                L.append(f"{fn} = xn({fn}, {', '.join(attrs)})")
            else:
                L.append(f"@xn({', '.join(attrs)})")
                L.append(f"def {fn}(*a, **k):")
                L.append(f"    return H.node_body({fn!r}, a, k)")
            L.append("")
        ps = ", ".join(nm if d == NODEFAULT else f"{nm}={d!r}" for nm, d in self.params)
        L.append(f"@dag(max_concurrency={self.mc}, is_async={self.is_async})")
        L.append(f"def {self.name}({ps}):")

        def atom(e: Edge) -> str:
            base = f"v{e.src}" if e.src >= 0 else self.params[-1 - e.src][0]
            return base + "".join(f"[{k!r}]" for k in e.path)

        for i, n in enumerate(self.nodes):
            fn = n.fn or f"n{i}"
            parts = [atom(e) for e in n.edges if e.kind == "pos"] + [repr(c) for c in n.consts]
            parts += [name + "=" + atom(e) for name, e in kw_items(n)]
            for e in n.edges:
                if e.kind == "flag":
                    parts.append("twz_active=" + atom(e))
            if n.const_flag != NOFLAG:
                parts.append(f"twz_active={n.const_flag!r}")
            L.append(f"    v{i} = {fn}({', '.join(parts)})")
        if returns == "all":
            L.append("    return (" + "".join(f"v{i}, " for i in range(len(self.nodes))) + ")")
        elif returns == "none":
            L.append("    return None")
        L.append("")
        return "\n".join(L)

    def key(self) -> str:
        return repr(self)

    def to_json(self) -> dict:
        return {
            "nodes": [
                {"edges": [[e.src, e.kind, list(e.path)] for e in n.edges], "res": n.res, "seq": n.seq, "prio": n.prio,
                 "setup": n.setup, "debug": n.debug, "fail": n.fail, "tag": n.tag,
                 "const_flag": n.const_flag, "fn": n.fn, "consts": list(n.consts), "unpack": n.unpack, "retnone": n.retnone}
                for n in self.nodes
            ],
            "mc": self.mc, "is_async": self.is_async, "params": [list(p) for p in self.params],
            "falsy": sorted([a, list(b)] for a, b in self.falsy), "name": self.name, "decl": self.decl,
        }

    @staticmethod
    def from_json(d: dict) -> "GProg":
        def tup(x):
            return tuple(tup(y) for y in x) if isinstance(x, list) else x

        nodes = tuple(
            GNode(edges=tuple(Edge(e[0], e[1], tup(e[2])) for e in n["edges"]), res=n["res"], seq=n["seq"], prio=n["prio"],
                  setup=n["setup"], debug=n["debug"], fail=n["fail"], tag=tup(n["tag"]), const_flag=tup(n["const_flag"]),
                  fn=n["fn"], consts=tup(n["consts"]), unpack=n["unpack"], retnone=n.get("retnone", False))
            for n in d["nodes"]
        )
        return GProg(nodes=nodes, mc=d["mc"], is_async=d["is_async"], params=tuple((p[0], tup(p[1])) for p in d["params"]),
                     falsy=frozenset((a, tup(b)) for a, b in d["falsy"]), name=d.get("name", "d"), decl=d.get("decl", "deco"))


# ---------------------------------------------------------------------- shape enumeration


def shapes(n: int):
    """All labelled DAGs on n nodes with edges only from lower to higher index (simplest first:
    by number of edges, then lexicographically). Yields tuples of edge pairs (i, j)."""
    pairs = [(i, j) for j in range(n) for i in range(j)]
    for k in range(len(pairs) + 1):
        for es in itertools.combinations(pairs, k):
            yield es


def prog_from_shape(n: int, es: Sequence[Tuple[int, int]], **kw) -> GProg:
    nodes = []
    for j in range(n):
        nodes.append(GNode(edges=tuple(Edge(i, "pos") for (i, jj) in es if jj == j)))
    return GProg(nodes=tuple(nodes), **kw)


def with_attrs(p: GProg, *, res: Optional[Sequence[str]] = None, seq: Optional[Sequence[bool]] = None,
               prio: Optional[Sequence[int]] = None, **kw) -> GProg:
    nodes = list(p.nodes)
    for i in range(len(nodes)):
        ch = {}
        if res is not None:
            ch["res"] = res[i]
        if seq is not None:
            ch["seq"] = bool(seq[i])
        if prio is not None:
            ch["prio"] = prio[i]
        if ch:
            nodes[i] = replace(nodes[i], **ch)
    return replace(p, nodes=tuple(nodes), **kw)


def res_menu(n: int) -> List[str]:
    """RESm of DESIGN 2.5."""
    m = ["t" * n, "a" * n, "m" * n,
         "".join("ta"[i % 2] for i in range(n)),
         "".join("tm"[i % 2] for i in range(n)),
         "a" + "t" * (n - 1)]
    out: List[str] = []
    for x in m:
        if x not in out:
            out.append(x)
    return out


def seq_menu(n: int) -> List[Tuple[bool, ...]]:
    """SEQm: none, each singleton, all."""
    out = [tuple([False] * n)]
    for i in range(n):
        out.append(tuple(j == i for j in range(n)))
    if n > 1:
        out.append(tuple([True] * n))
    return out


def prio_menu(n: int) -> List[Tuple[int, ...]]:
    """PRIOm: all 0, ascending, descending, one high (each position)."""
    out = [tuple([0] * n), tuple(range(n)), tuple(range(n - 1, -1, -1))]
    for i in range(n):
        out.append(tuple(2 if j == i else 0 for j in range(n)))
    res: List[Tuple[int, ...]] = []
    for x in out:
        if x not in res:
            res.append(x)
    return res
