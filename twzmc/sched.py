"""Generic driver of SCHED checks: one GProg (+ optional selection) -> all schedules -> monitors."""
from __future__ import annotations

from typing import Callable, List, Optional

from . import harness as H
from .build import build_gprog
from .explore import StateCounter, explore
from .gprog import GProg
from .harness import jsonable
from .monitors import View

SELFCHECK_PER_SHARD = 25


def src_lines_of(prog: GProg, src: str) -> dict:
    ids = prog.ids()
    out = {}
    for ln, text in enumerate(src.splitlines(), 1):
        t = text.strip()
        for i in range(len(ids)):
            if t.startswith(f"v{i} = "):
                out[ids[i]] = ln
    return out


def make_op(d, prog: GProg, selection: Optional[dict]):
    ids = prog.ids()
    if selection is None:
        if prog.is_async:
            async def op():
                return await d()
            return op
        return lambda: d()
    kw = {}
    for key, name in (("T", "target_nodes"), ("X", "exclude_nodes"), ("R", "root_nodes")):
        if selection.get(key) is not None:
            kw[name] = [ids[i] for i in selection[key]]
    if prog.is_async:
        async def op():
            return await d.executor(**kw)()
        return op
    return lambda: d.executor(**kw)()


def run_prog(acc, prog: GProg, monitors: List[Callable], *, tie_budget: Optional[int], batch_order: bool = False,
             selection: Optional[dict] = None, nontrivial: Optional[Callable] = None, case: Optional[dict] = None,
             rebuild_each: bool = False, debug_on: bool = False, max_execs: Optional[int] = None) -> int:
    """Explore every schedule of `prog`; returns the number of executions."""
    from tawazi import cfg

    case = case if case is not None else {"prog": prog.to_json(), "selection": selection}
    src = prog.source()
    lines = src_lines_of(prog, src)
    sel = None
    if selection is not None:
        sel, why = prog.closure(selection.get("R"), selection.get("X"), selection.get("T"))
        if sel is None or sel == "either":
            raise ValueError(f"selection {selection} is outside the quantifier: {why}")
    ref = prog.ref_run(sel, None, debug_on)
    state = {"d": None, "ns": None}
    cfg.RUN_DEBUG_NODES = debug_on

    def fresh():
        state["d"], state["ns"] = build_gprog(prog)

    fresh()
    sc = StateCounter()
    nexec = 0

    def run_one(prefix):
        if rebuild_each:
            fresh()
        H.Tok.FALSY = set(prog.falsy)
        op = make_op(state["d"], prog, selection)
        res = H.run_controlled(op, prefix=prefix, is_async=prog.is_async, batch_order=batch_order)
        if res.outcome in ("hang", "spin"):
            fresh()
        return res

    try:
        for prefix, res in explore(run_one, tie_budget, max_execs):
            nexec += 1
            acc.evaluations += 1
            acc.add_hits(res.hook_hits)
            if acc.selfcheck < SELFCHECK_PER_SHARD:
                acc.selfcheck += 1
                res2 = run_one(tuple(c for _, _, c in res.choices))
                if jsonable(res2.trace) != jsonable(res.trace) or res2.outcome != res.outcome:
                    raise H.HarnessError(f"non-deterministic replay of {case} prefix {prefix}:\n{jsonable(res.trace)}\nvs\n{jsonable(res2.trace)}")
            view = View(prog, res, sel, None, debug_on, None, lines, state["ns"]["__src_file__"], ref=ref)
            sc.add(res)
            acc.outcome((case.get("k"), tuple(e[:2] for e in res.trace if e[0] in ("enter", "exit")), res.outcome))
            if nontrivial is not None:
                key = nontrivial(view)
                if key is not None:
                    acc.mark_nontrivial((repr(case), key))
            for m in monitors:
                for viol in m(view):
                    acc.violation(viol, case, tuple(c for _, _, c in res.choices), res.trace, src)
            if nexec == 1:
                acc.sample({"case": case, "choices": [list(c) for c in res.choices], "outcome": res.outcome,
                            "trace": [e for e in res.trace][:40]})
    finally:
        cfg.RUN_DEBUG_NODES = False
    s, t = sc.counts()
    acc.states += s
    acc.transitions += t
    acc.cases += 1
    return nexec


def replay_prog(prog: GProg, monitors: List[Callable], prefix, *, selection=None, batch_order=False, debug_on=False):
    from tawazi import cfg

    cfg.RUN_DEBUG_NODES = debug_on
    try:
        d, ns = build_gprog(prog)
        src = prog.source()
        sel = None
        if selection is not None:
            sel, _ = prog.closure(selection.get("R"), selection.get("X"), selection.get("T"))
        op = make_op(d, prog, selection)
        res = H.run_controlled(op, prefix=tuple(prefix), is_async=prog.is_async, batch_order=batch_order)
        view = View(prog, res, sel, None, debug_on, None, src_lines_of(prog, src), ns["__src_file__"])
        viols = [v for m in monitors for v in m(view)]
    finally:
        cfg.RUN_DEBUG_NODES = False
    return res, viols
