"""Generic driver of SCHED checks: one GProg (+ optional selection) -> all schedules -> monitors."""
from __future__ import annotations

from typing import Callable, List, Optional

from . import harness as H
from .build import build_gprog
from .explore import StateCounter, explore
from .gprog import GProg
from .harness import jsonable
from .monitors import View

SELFCHECK_PER_SHARD = 25


def src_lines_of(prog: GProg, src: str) -> dict:
    ids = prog.ids()
    out = {}
    for ln, text in enumerate(src.splitlines(), 1):
        t = text.strip()
        for i in range(len(ids)):
            if t.startswith(f"v{i} = "):
                out[ids[i]] = ln
    return out


def topo_orders(prog: GProg, limit: int = 24):
    """Every order of the node indices in which the describing function could list the same calls (dependencies first)."""
    import itertools
    n = len(prog.nodes)
    out = []
    for order in itertools.permutations(range(n)):
        pos = {old: new for new, old in enumerate(order)}
        if all(pos[dp] < pos[i] for i in range(n) for dp in prog.deps(i)):
            out.append(list(order))
            if len(out) >= limit:
                break
    return out


def permute_prog(prog: GProg, order: list) -> GProg:
    """The same DAG with its calls written in another (still valid) order; node k of the result is node order[k] of `prog`."""
    from dataclasses import replace as _r

    from .gprog import Edge
    pos = {old: new for new, old in enumerate(order)}
    nodes = []
    for old in order:
        nd = prog.nodes[old]
        nodes.append(_r(nd, edges=tuple(Edge(pos[e.src], e.kind, e.path) if e.src >= 0 else e for e in nd.edges)))
    return _r(prog, nodes=tuple(nodes), falsy=frozenset())


_ORDER_CACHE: dict = {}


def pulled_under_reorderings(prog: GProg, selection: dict, pulled: set):
    """Metamorphic oracle: WHICH debug nodes a sub-graph run pulls in is left open by the properties, but it must be a function of the
    graph and the selection, not of the order in which the describing function happens to list independent calls. Returns
    (order, pulled there mapped back) of the first re-ordering that disagrees, else None."""
    key = (prog.key(), repr(sorted((k, v) for k, v in selection.items() if k in ("T", "X", "R"))))
    if key in _ORDER_CACHE:
        return _ORDER_CACHE[key]
    res = None
    for order in topo_orders(prog):
        if order == list(range(len(prog.nodes))):
            continue
        p2 = permute_prog(prog, order)
        pos = {old: new for new, old in enumerate(order)}
        d2, _ = build_gprog(p2)
        ids2 = p2.ids()
        kw2 = {}
        for k_, name in (("T", "target_nodes"), ("X", "exclude_nodes"), ("R", "root_nodes")):
            if selection.get(k_) is not None:
                kw2[name] = [ids2[pos[i]] for i in selection[k_]]
        got = {order[ids2.index(x)] for x in d2.executor(**kw2).graph.nodes if x in ids2 and p2.nodes[ids2.index(x)].debug}
        if got != pulled:
            res = (order, got)
            break
    _ORDER_CACHE[key] = res
    return res


def with_sibling(op):
    """The AsyncDAG is awaited while another task is alive on the same loop (a heartbeat that runs whenever the loop is free)."""
    import asyncio as _aio

    async def wrapped():
        async def heartbeat():
            while True:
                await _aio.sleep(0)
        t = _aio.ensure_future(heartbeat())
        try:
            return await op()
        finally:
            t.cancel()
    return wrapped


def make_op(d, prog: GProg, selection: Optional[dict]):
    ids = prog.ids()
    if selection is not None and selection.get("alias") == "tag_eq_id":
        # node 1 carries the tag "n0" (the id of node 0): a string is a tag first, so node 1 is named "n0" and node 0 can only be
        # named by reference
        ids = [{0: d.exec_nodes[ids[0]], 1: "n0"}.get(i, x) for i, x in enumerate(ids)]
    if selection is None:
        if prog.is_async:
            async def op():
                return await d()
            return op
        return lambda: d()
    if selection.get("setup"):
        kw = {}
        if selection.get("T") is not None:
            kw["target_nodes"] = [ids[i] for i in selection["T"]]
        if selection.get("R") is not None:
            kw["root_nodes"] = [ids[i] for i in selection["R"]]
        if prog.is_async:
            async def op():
                return await d.setup(**kw)
            return op
        return lambda: d.setup(**kw)
    kw = {}
    for key, name in (("T", "target_nodes"), ("X", "exclude_nodes"), ("R", "root_nodes")):
        if selection.get(key) is not None:
            kw[name] = [ids[i] for i in selection[key]]
    if prog.is_async:
        async def op():
            return await d.executor(**kw)()
        return op
    return lambda: d.executor(**kw)()


def conf_build_prog(prog: GProg, conf: dict) -> GProg:
    """The program as it is BUILT when attributes are later set through config_from_dict: initial is_sequential / priority
    from conf["init"], and (via='tag') a tag shared by all nodes that end up with the same (is_sequential, priority)."""
    from dataclasses import replace as _r
    nodes = []
    groups = {}
    for i, nd in enumerate(prog.nodes):
        init_seq = conf["init"]["seq"][i]
        init_prio = conf["init"]["prio"][i]
        tag = nd.tag
        if conf.get("via") == "tag":
            g = groups.setdefault((nd.seq, nd.prio), f"g{len(groups)}")
            tag = g
        nodes.append(_r(nd, seq=bool(init_seq), prio=init_prio, tag=tag))
    return _r(prog, nodes=tuple(nodes))


def conf_apply(d, prog: GProg, bprog: GProg, conf: dict) -> None:
    """config_from_dict towards the attributes of `prog` (the reference), for the configured subset of nodes."""
    ids = prog.ids()
    which = conf.get("nodes")
    entries = {}
    for i, nd in enumerate(prog.nodes):
        if which is not None and i not in which:
            continue
        b = bprog.nodes[i]
        if which is None and (b.seq, b.prio) == (nd.seq, nd.prio):
            continue
        alias = bprog.nodes[i].tag if conf.get("via") == "tag" else ids[i]
        entry = {}
        if conf.get("keys", "both") in ("both", "seq"):
            entry["is_sequential"] = nd.seq
        if conf.get("keys", "both") in ("both", "prio"):
            entry["priority"] = nd.prio
        entries[alias] = entry
    if entries:
        d.config_from_dict({"nodes": entries})


def selection_set(prog: GProg, selection: Optional[dict]):
    """Reference set of participating node indices of a selection (None = all)."""
    if selection is None:
        return None
    if selection.get("setup"):
        T = selection.get("T")
        if T is None:
            T = [i for i, nd in enumerate(prog.nodes) if nd.setup]
        sel, why = prog.closure(selection.get("R"), None, T)
        if sel is None or sel == "either":
            raise ValueError(f"setup selection {selection} is outside the quantifier: {why}")
        return {i for i in sel if prog.nodes[i].setup}
    sel, why = prog.closure(selection.get("R"), selection.get("X"), selection.get("T"))
    if sel is None or sel == "either":
        raise ValueError(f"selection {selection} is outside the quantifier: {why}")
    return sel


def run_case(acc, c: dict, monitors: List[Callable], nontrivial: Optional[Callable] = None, prog: Optional[GProg] = None,
             max_execs: Optional[int] = None) -> int:
    """Explore every schedule of the case `c` (see spaces.py for the fields); returns the number of executions."""
    from tawazi import cfg

    from .spaces import prog_of

    prog = prog if prog is not None else prog_of(c)
    selection, tie_budget = c.get("sel"), c.get("ties")
    warm, debug_on, batch_order = c.get("warm", 0), c.get("debug_on", False), c.get("batch", False)
    early = c.get("early", 0)
    # max_concurrency lowered / raised after the build (config_from_dict or plain assignment): the DAG is built with
    # build_mc, the monitors judge against the reconfigured value
    reconf = c.get("reconf")
    bprog = prog
    if reconf:
        from dataclasses import replace as _replace
        bprog = _replace(prog, mc=reconf["build_mc"])
        prog = _replace(prog, mc=reconf["mc"])
    src = prog.source()
    lines = src_lines_of(prog, src)
    sel = selection_set(prog, selection)
    if debug_on and selection is not None and sel is not None and any(nd.debug for nd in prog.nodes):
        # which debug nodes are pulled into a sub-graph run is not specified; once pulled in they take part like any node
        from tawazi import cfg as _cfg
        _cfg.RUN_DEBUG_NODES = True
        H.arm_watchdog(10.0)
        try:
            d0, _ = build_gprog(prog)
            ids0 = prog.ids()
            kw0 = {}
            for key, name in (("T", "target_nodes"), ("X", "exclude_nodes"), ("R", "root_nodes")):
                if selection.get(key) is not None:
                    kw0[name] = [ids0[i] for i in selection[key]]
            pulled = {ids0.index(x) for x in d0.executor(**kw0).graph.nodes if x in ids0 and prog.nodes[ids0.index(x)].debug}
            if acc.check_id in ("C03", "C13") and not any(nd.fn for nd in prog.nodes):
                diff = pulled_under_reorderings(prog, selection, pulled)
                if diff is not None:
                    from .monitors import V as _V
                    acc.violation(_V("debug_selection_depends_on_declaration_order",
                                     f"executor({kw0}) with RUN_DEBUG_NODES on pulls in the debug nodes {sorted(ids0[i] for i in pulled)}; with the same calls listed in the "
                                     f"order {[ids0[i] for i in diff[0]]} it pulls in {sorted(ids0[i] for i in diff[1])}: the selection depends on the order of declaration"),
                                  c, (), None, prog.source())
            sel = set(sel) | pulled
        except H.HangDetected:
            H.disarm_watchdog()
            from .monitors import V as _V
            if acc.check_id == "C09":
                acc.violation(_V("hang", f"constructing executor({kw0}) with RUN_DEBUG_NODES on does not terminate"), c, (), None, prog.source())
            acc.cases += 1
            acc.evaluations += 1

            class _R:
                outcome, forced = "hang", 0
            acc.stall(_R())
            return 0
        finally:
            H.disarm_watchdog()
            _cfg.RUN_DEBUG_NODES = False
    has_setup = any(nd.setup for nd in prog.nodes)
    rebuild_each = has_setup or warm > 0
    ref0 = None if (warm or c.get("deferred_setup") or c.get("composed")) else prog.ref_run(sel, None, debug_on)
    state = {"d": None, "ns": None, "pre": None}
    cfg.RUN_DEBUG_NODES = debug_on
    cfg.TAWAZI_PROFILE_ALL_NODES = bool(c.get("profile", False))

    conf = c.get("conf")
    if conf:
        bprog = conf_build_prog(prog, conf)

    def fresh():
        state["d"], state["ns"] = build_gprog(bprog, noloc=c.get("noloc", False))
        if conf:
            if conf.get("during_warm"):
                # the reconfiguration happens from inside a node function of a call that is in flight (it returns before that call
                # ends); the call explored afterwards must obey the new attributes
                d_w = state["d"]
                H.IN_FLIGHT[bprog.ids()[0]] = lambda: conf_apply(d_w, prog, bprog, conf)
                r0 = H.run_controlled(make_op(d_w, bprog, None), is_async=prog.is_async)
                H.IN_FLIGHT.clear()
                if r0.outcome != "return":
                    raise H.HarnessError(f"warm-up call with a reconfiguration in flight did not return: {r0.outcome} {r0.exc!r}")
            else:
                if conf.get("after_warm"):
                    r0 = H.run_controlled(make_op(state["d"], bprog, None), is_async=prog.is_async)
                    if r0.outcome != "return":
                        raise H.HarnessError(f"warm-up call before config did not return: {r0.outcome} {r0.exc!r}")
                conf_apply(state["d"], prog, bprog, conf)
        if reconf:
            if reconf.get("via") == "attr":
                state["d"].max_concurrency = reconf["mc"]
            else:
                state["d"].config_from_dict({"max_concurrency": reconf["mc"]})
        state["pre"] = None
        if warm:
            pre = {}
            for _ in range(warm):
                r = H.run_controlled(make_op(state["d"], prog, None), is_async=prog.is_async)
                if r.outcome != "return":
                    raise H.HarnessError(f"warm-up call did not return: {r.outcome} {r.exc!r}")
                for e in r.trace:
                    if e[0] == "enter":
                        i = idx.get(e[1])
                        if i is not None and prog.nodes[i].setup and i not in pre:
                            pre[i] = e[2]
            state["pre"] = pre

    idx = {s_: i for i, s_ in enumerate(prog.ids())}
    deferred = c.get("deferred_setup", False)
    if deferred:
        rebuild_each = True
        _fresh0 = fresh

        def fresh():  # noqa: F811
            _fresh0()
            d_ = state["d"]
            kw_ = {}
            if selection and not selection.get("setup"):
                ids_ = prog.ids()
                for key_, name_ in (("T", "target_nodes"), ("X", "exclude_nodes"), ("R", "root_nodes")):
                    if selection.get(key_) is not None:
                        kw_[name_] = [ids_[i_] for i_ in selection[key_]]
            state["ex"] = d_.executor(**kw_)  # constructed BEFORE the setup nodes run ...
            r = H.run_controlled(make_op(d_, prog, {"setup": True}), is_async=prog.is_async)  # ... then dag.setup()
            if r.outcome != "return":
                raise H.HarnessError(f"setup() did not return: {r.outcome} {r.exc!r}")
            pre = {}
            for e in r.trace:
                if e[0] == "enter":
                    i = idx.get(e[1])
                    if i is not None and prog.nodes[i].setup:
                        pre[i] = e[2]
            state["pre"] = pre

    fresh()
    sc = StateCounter()
    nexec = 0

    def run_one(prefix):
        if rebuild_each:
            fresh()
        H.Tok.FALSY = set(prog.falsy)
        op = make_op(state["d"], prog, selection)
        if c.get("sibling") and prog.is_async:
            op = with_sibling(op)
        if c.get("composed"):
            import warnings as _w
            ids_ = prog.ids()
            with _w.catch_warnings():
                _w.simplefilter("ignore")
                comp_ = state["d"].compose("comp", [ids_[0]], ids_[1:], max_concurrency=prog.mc)
            tok_ = H.Tok(ids_[0], 999000)

            def op():  # noqa: F811
                r_ = comp_(tok_)
                return (tok_,) + tuple(r_)
        if deferred:
            ex_ = state["ex"]
            if prog.is_async:
                async def op():  # noqa: F811
                    return await ex_()
            else:
                def op():  # noqa: F811
                    return ex_()
        res = H.run_controlled(op, prefix=prefix, is_async=prog.is_async, batch_order=batch_order, early=bool(early))
        if res.outcome in ("hang", "spin"):
            fresh()
        return res

    def _explore_restartable():
        """A prefix that cannot be replayed even after repeating the execution (see explore._run_with_retry) was recorded by an
        execution that the overloaded machine disturbed: the small case is explored once more from scratch (counted in the evidence);
        a second divergence is a real harness error."""
        try:
            yield from explore(run_one, tie_budget, max_execs, early or 0)
        except H.HarnessError as e0:
            if "replay divergence" not in str(e0):
                raise
            acc.extra["cases_explored_again_after_divergence"] = acc.extra.get("cases_explored_again_after_divergence", 0) + 1
            fresh()
            yield from explore(run_one, tie_budget, max_execs, early or 0)

    try:
        for prefix, res in _explore_restartable():
            nexec += 1
            acc.evaluations += 1
            acc.add_hits(res.hook_hits)
            pre = state["pre"]
            if c.get("composed"):
                pre = {0: 999000}  # node 0 is the composed DAG's input: its "result" is the supplied token
            if res.outcome == "hang" or res.forced:
                # a stall is only believed when the same schedule stalls again (the first one may be the machine's doing)
                res_c = run_one(tuple(c_ for _, _, c_ in res.choices))
                if not (res_c.outcome == "hang" or res_c.forced):
                    acc.extra["stalls_not_confirmed"] = acc.extra.get("stalls_not_confirmed", 0) + 1
                    res = res_c
            stalled = res.outcome == "hang" or res.forced
            if acc.selfcheck < SELFCHECK_PER_SHARD:
                acc.selfcheck += 1
                full = tuple(c_ for _, _, c_ in res.choices)
                res2 = run_one(full)
                if (H.canon_trace(res2.trace) != H.canon_trace(res.trace) or res2.outcome != res.outcome) and not (res.forced or res2.forced):
                    # one of the two may have been disturbed by the machine (overload): the schedule must replay identically twice in a row
                    res3, res4 = run_one(full), run_one(full)
                    if H.canon_trace(res3.trace) == H.canon_trace(res4.trace) and res3.outcome == res4.outcome and H.canon_trace(res3.trace) in (
                            H.canon_trace(res.trace), H.canon_trace(res2.trace)):
                        res2 = res if H.canon_trace(res3.trace) == H.canon_trace(res.trace) else res2
                        res = res3
                if H.canon_trace(res2.trace) != H.canon_trace(res.trace) or res2.outcome != res.outcome:
                    raise H.HarnessError(f"non-deterministic replay of {c} prefix {prefix}:\n{jsonable(res.trace)}\nvs\n{jsonable(res2.trace)}")
            view = View(prog, res, sel, pre, debug_on, None, lines, state["ns"]["__src_file__"], ref=ref0)
            view.case = c
            sc.add(res)
            acc.outcome((tuple(e[:2] for e in res.trace if e[0] in ("enter", "exit")), res.outcome))
            if nontrivial is not None:
                key = nontrivial(view)
                if key is not None:
                    acc.mark_nontrivial((repr(c), key))
            for m in monitors:
                for viol in m(view):
                    acc.violation(viol, c, tuple(c_ for _, _, c_ in res.choices), res.trace, src)
            if nexec == 1:
                acc.sample({"case": c, "choices": [list(x) for x in res.choices], "outcome": res.outcome,
                            "trace": [e for e in res.trace][:40]})
            if stalled:
                acc.stall(res)
    except H.HarnessError as e_:
        raise H.HarnessError(f"{e_} | case={c}") from e_
    finally:
        cfg.RUN_DEBUG_NODES = False
        cfg.TAWAZI_PROFILE_ALL_NODES = False
    s, t = sc.counts()
    acc.states += s
    acc.transitions += t
    acc.cases += 1
    return nexec


def replay_case(c: dict, monitors: List[Callable], prefix, prog: Optional[GProg] = None):
    """Re-run one recorded choice sequence of a case; returns (result, violations)."""
    from tawazi import cfg

    from .spaces import prog_of

    prog = prog if prog is not None else prog_of(c)
    selection = c.get("sel")
    warm, debug_on, batch_order = c.get("warm", 0), c.get("debug_on", False), c.get("batch", False)
    cfg.RUN_DEBUG_NODES = debug_on
    cfg.TAWAZI_PROFILE_ALL_NODES = bool(c.get("profile", False))
    try:
        reconf = c.get("reconf")
        if reconf:
            from dataclasses import replace as _replace
            d, ns = build_gprog(_replace(prog, mc=reconf["build_mc"]), noloc=c.get("noloc", False))
            if reconf.get("via") == "attr":
                d.max_concurrency = reconf["mc"]
            else:
                d.config_from_dict({"max_concurrency": reconf["mc"]})
            prog = _replace(prog, mc=reconf["mc"])
        elif c.get("conf"):
            bprog = conf_build_prog(prog, c["conf"])
            d, ns = build_gprog(bprog, noloc=c.get("noloc", False))
            if c["conf"].get("during_warm"):
                H.IN_FLIGHT[bprog.ids()[0]] = lambda: conf_apply(d, prog, bprog, c["conf"])
                H.run_controlled(make_op(d, bprog, None), is_async=prog.is_async)
                H.IN_FLIGHT.clear()
            else:
                if c["conf"].get("after_warm"):
                    H.run_controlled(make_op(d, bprog, None), is_async=prog.is_async)
                conf_apply(d, prog, bprog, c["conf"])
        else:
            d, ns = build_gprog(prog, noloc=c.get("noloc", False))
        src = prog.source()
        sel = selection_set(prog, selection)
        idx = {s_: i for i, s_ in enumerate(prog.ids())}
        pre = None
        if warm:
            pre = {}
            for _ in range(warm):
                r = H.run_controlled(make_op(d, prog, None), is_async=prog.is_async)
                for e in r.trace:
                    if e[0] == "enter":
                        i = idx.get(e[1])
                        if i is not None and prog.nodes[i].setup and i not in pre:
                            pre[i] = e[2]
        H.Tok.FALSY = set(prog.falsy)
        op_ = make_op(d, prog, selection)
        if c.get("sibling") and prog.is_async:
            op_ = with_sibling(op_)
        if c.get("composed"):
            import warnings as _w
            ids_ = prog.ids()
            with _w.catch_warnings():
                _w.simplefilter("ignore")
                comp_ = d.compose("comp", [ids_[0]], ids_[1:], max_concurrency=prog.mc)
            tok_ = H.Tok(ids_[0], 999000)
            pre = {0: 999000}

            def op_():  # noqa: F811
                return (tok_,) + tuple(comp_(tok_))
        res = H.run_controlled(op_, prefix=tuple(prefix), is_async=prog.is_async, batch_order=batch_order,
                               early=bool(c.get("early", 0)))
        view = View(prog, res, sel, pre, debug_on, None, src_lines_of(prog, src), ns["__src_file__"])
        view.case = c
        viols = [v for m in monitors for v in m(view)]
    finally:
        cfg.RUN_DEBUG_NODES = False
        cfg.TAWAZI_PROFILE_ALL_NODES = False
    return res, viols
