"""twzmc: bounded-exhaustive model checking of mindee/tawazi on the real implementation."""
