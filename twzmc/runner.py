"""Parent side: shard a check over worker processes, merge, match known findings, write evidence and replays."""
from __future__ import annotations

import hashlib
import importlib
import json
import os
import shutil
import subprocess
import sys
import tempfile
import time

ROOT = os.path.dirname(os.path.dirname(os.path.abspath(__file__)))
PY = os.environ.get("VERIF_PYTHON", "/venv/bin/python")
REPO = os.environ.get("VERIF_REPO", "/repo")


def load_known() -> dict:
    with open(os.path.join(ROOT, "known_findings.json")) as f:
        return json.load(f)


def matches(entry: dict, viol: dict) -> bool:
    if entry.get("kind") != viol["kind"]:
        return False
    for k, want in entry.get("sig", {}).items():
        if viol.get("sig", {}).get(k) != want:
            return False
    return True


def run_check(check_id: str, tier: str, seed: int) -> int:
    t0 = time.time()
    check_id = check_id.upper()
    env = dict(os.environ)
    env["PYTHONHASHSEED"] = str(seed % (2**32))
    env["PYTHONPATH"] = ROOT + os.pathsep + REPO
    env["PYTHONDONTWRITEBYTECODE"] = "1"
    for k in list(env):
        if k.startswith("TAWAZI_") or k == "RUN_DEBUG_NODES":
            del env[k]
    env["TAWAZI_VERIF"] = "1"
    env["VERIF_SEED"] = str(seed)
    sys.path.insert(0, ROOT)
    meta = importlib.import_module(f"twzmc.checks.{check_id.lower()}_meta") if os.path.exists(
        os.path.join(ROOT, "twzmc", "checks", f"{check_id.lower()}_meta.py")) else None
    nshards = int(os.environ.get("VERIF_WORKERS", min(16, os.cpu_count() or 1)))
    if meta is not None and hasattr(meta, "WORKERS"):
        nshards = min(nshards, meta.WORKERS.get(tier, nshards))
    tmp = tempfile.mkdtemp(prefix=f"twzmc-{check_id}-")
    procs = []
    info0 = importlib.import_module("twzmc.checks.info").INFO[check_id]
    groups = info0.get("hash_seeds", 1)  # every case is run under `groups` different hash seeds
    per_group = max(1, nshards // groups)
    seeds_used = []
    try:
        for k in range(groups * per_group if groups > 1 else nshards):
            out = os.path.join(tmp, f"shard{k}.json")
            wenv = dict(env)
            part_k, part_n = k, nshards
            if groups > 1:
                gi, part_k, part_n = k // per_group, k % per_group, per_group
                hs = (seed + (0, 1, 7, 42, 3, 2)[gi % 6]) % (2**32)
                wenv["PYTHONHASHSEED"] = str(hs)
                if hs not in seeds_used:
                    seeds_used.append(hs)
            if info0.get("cfg_variants"):
                from .cfgvariant import of_shard
                wenv["VERIF_CFG_VARIANT"] = str(of_shard(k))
            wenv["VERIF_TMP"] = os.path.join(tmp, f"w{k}")
            os.makedirs(wenv["VERIF_TMP"], exist_ok=True)
            p = subprocess.Popen([PY, "-m", "twzmc.worker", check_id, tier, str(part_k), str(part_n), out],
                                 cwd=ROOT, env=wenv, stdout=subprocess.PIPE, stderr=subprocess.DEVNULL, text=True)
            procs.append((k, p, out))
        shards = []
        errors = []
        for k, p, out in procs:
            so, _ = p.communicate()
            if os.path.exists(out):
                with open(out) as f:
                    d = json.load(f)
                shards.append(d)
                if d["status"] != "ok":
                    errors.append(f"shard {k}: {d['error']}")
            else:
                errors.append(f"shard {k}: exit {p.returncode}, no result file. stdout: {so[-2000:]}")
    finally:
        shutil.rmtree(tmp, ignore_errors=True)

    if errors:
        for e in errors[:3]:
            print("HARNESS-ERROR:", e)
        return 3

    mod_info = importlib.import_module(f"twzmc.checks.info")
    info = mod_info.INFO[check_id]
    known = load_known()
    known_entries = [e for e in known.get("known", []) if e["property"] == check_id]

    tot = {k: sum(s[k] for s in shards) for k in ("cases", "evaluations", "states", "transitions", "nontrivial", "outcomes", "selfcheck")}
    hook_hits: dict = {}
    extra: dict = {}
    for s in shards:
        for k, v in s["hook_hits"].items():
            hook_hits[k] = hook_hits.get(k, 0) + v
        for k, v in s["extra"].items():
            if isinstance(v, (int, float)):
                extra[k] = extra.get(k, 0) + v
            else:
                extra.setdefault(k, v)
    samples = []
    for s in shards:
        for x in s["samples"]:
            if len(samples) < 4:
                samples.append(x)
    capped = [s["capped_at"] for s in shards if s["capped_at"] is not None]

    viols = [v for s in shards for v in s["violations"]]
    viol_counts: dict = {}
    for s in shards:
        for k, n in s["viol_counts"].items():
            viol_counts[k] = viol_counts.get(k, 0) + n
    known_hits: dict = {}
    real = []
    for v in viols:
        hit = next((e for e in known_entries if matches(e, v)), None)
        if hit is not None:
            known_hits.setdefault(hit["what"], 0)
            key = v["kind"] + "|" + json.dumps(v.get("sig", {}), sort_keys=True)
            known_hits[hit["what"]] = max(known_hits[hit["what"]], viol_counts.get(key, 1))
        else:
            real.append(v)

    out_root = os.environ.get("VERIF_OUT_DIR", ROOT)  # evaluation of seeded changes writes elsewhere
    os.makedirs(os.path.join(out_root, "replays"), exist_ok=True)
    printed = set()
    lines = []
    kinds_seen: dict = {}
    real_sorted = sorted(real, key=lambda v: len(json.dumps(v.get("case"), default=str)))  # smallest case first
    for v in real_sorted:
        key = v["kind"] + "|" + json.dumps(v.get("sig", {}), sort_keys=True)
        if key in printed or kinds_seen.get(v["kind"], 0) >= 2:
            continue
        printed.add(key)
        kinds_seen[v["kind"]] = kinds_seen.get(v["kind"], 0) + 1
        hh = hashlib.blake2b(json.dumps(v, sort_keys=True, default=str).encode(), digest_size=6).hexdigest()
        path = os.path.join(out_root, "replays", f"{check_id}-{v['kind']}-{hh}.json")
        v2 = dict(v)
        v2["property"] = check_id
        v2["tier"] = tier
        v2["seed"] = seed
        with open(path, "w") as f:
            json.dump(v2, f, indent=1)
        with open(path[:-5] + ".py", "w") as f:
            f.write(REPLAY_PY.format(root=ROOT, path=path, check=check_id, msg=v["msg"].replace('"""', "'''")))
        lines.append(f"VIOLATION property={check_id} replay={path}\n  # {v['kind']}: {v['msg'][:300]} (x{viol_counts.get(key, 1)})")
        if len(lines) >= 8:
            break
    for what, n in known_hits.items():
        print(f"KNOWN-FINDING: property={check_id} {what} (matched {n} executions)")
    for ln in lines:
        print(ln)

    wall = time.time() - t0
    exhaustive = not capped
    cov = {
        "states": max(tot["states"], 1), "transitions": max(tot["transitions"], 1),
        "traces_validated_against_impl": tot["evaluations"],
        "samples": samples or ["<none>"],
        "evaluations": tot["evaluations"], "distinct_nontrivial": tot["nontrivial"],
        "rule": info["rule"], "exhaustive": exhaustive, "cases": tot["cases"],
        "distinct_outcomes": tot["outcomes"], "hook_hits": hook_hits, "bounds": info["bounds"][tier],
        "determinism_selfchecks": tot["selfcheck"], "workers": nshards,
        "known_finding_hits": sum(known_hits.values()),
    }
    cov["shard_wall_s"] = sorted(round(s_.get("wall_s", 0), 1) for s_ in shards)
    if seeds_used:
        cov["hash_seeds"] = seeds_used
    if info0.get("cfg_variants"):
        cov["cfg_variants"] = "shards k%4==1 run with the library imported under TAWAZI_IS_SEQUENTIAL=true / TAWAZI_DEFAULT_RESOURCE=main-thread and cfg reset afterwards, shards k%4==3 with those defaults left in force: explicit node attributes must win"
    if capped:
        cov["time_cap_hit"] = True
        cov["capped_shards"] = len(capped)
        cov["explanation"] = "time budget hit: every shard enumerates simplest-first; cases before the cap index of each shard were fully covered"
    cov.update({k: v for k, v in extra.items() if k not in cov})
    ev = {
        "property_id": check_id, "tier": tier, "seed": seed, "level": "model_checking", "coverage": cov,
        "assumptions": info["assumptions"], "wall_s": round(wall, 2), "violations": len(real),
    }
    os.makedirs(os.path.join(out_root, "evidence"), exist_ok=True)
    with open(os.path.join(out_root, "evidence", f"{check_id}.json"), "w") as f:
        json.dump(ev, f, indent=1)
    print(f"{check_id} tier={tier} seed={seed} cases={tot['cases']} executions={tot['evaluations']} states={tot['states']} "
          f"transitions={tot['transitions']} nontrivial={tot['nontrivial']} outcomes={tot['outcomes']} "
          f"violations={sum(viol_counts.values()) - sum(known_hits.values())} known={sum(known_hits.values())} "
          f"exhaustive={exhaustive} wall={wall:.1f}s")
    if real:
        return 1
    if tot["nontrivial"] < 2:
        print("HARNESS-ERROR: vacuous run (the property's premise was never exercised)")
        return 3
    return 0


REPLAY_PY = '''"""Replays one violation of {check} without the explorer.
{msg}
"""
import subprocess, sys
sys.exit(subprocess.call(["{root}/check", "--replay", "{path}"]))
'''


def replay(path: str) -> int:
    with open(path) as f:
        v = json.load(f)
    check_id = v["property"]
    env = dict(os.environ)
    env["PYTHONHASHSEED"] = str(int(v.get("seed", 0)) % (2**32))
    env["PYTHONPATH"] = ROOT + os.pathsep + REPO
    env["TAWAZI_VERIF"] = "1"
    for k in list(env):
        if (k.startswith("TAWAZI_") and k != "TAWAZI_VERIF") or k == "RUN_DEBUG_NODES":
            del env[k]
    env["VERIF_CFG_VARIANT"] = str(v.get("cfg_variant", 0))
    return subprocess.call([PY, "-m", "twzmc.replay", path], cwd=ROOT, env=env)
