"""Bounded-exhaustive program generator of the supported fragment (C01, C17): every sequence of <= L statements over the
statement alphabet, argument slots filled from {params, a constant, projections of the two most recent variables}."""
from __future__ import annotations

import itertools
from typing import Iterator, List, Tuple

from .ir import NODEFAULT

OPS_Q = ["+", "<", "==", "&"]
OPS_T = ["+", "-", "*", "<", "==", ">=", "&", "|"]

SUBS = {
    "sub_inc": {"name": "sub_inc", "params": [["a", NODEFAULT]], "body": [{"k": "call", "fn": "inc", "args": [["p", "a"]], "kwargs": {}, "flag": None, "out": "w0"}],
                "ret": ["atom", ["v", "w0", []]], "subs": []},
    "sub_add": {"name": "sub_add", "params": [["a", NODEFAULT], ["b", 5]],
                "body": [{"k": "call", "fn": "add", "args": [["p", "a"], ["p", "b"]], "kwargs": {}, "flag": None, "out": "w0"}],
                "ret": ["atom", ["v", "w0", []]], "subs": []},
    "sub_pair": {"name": "sub_pair", "params": [["a", NODEFAULT]],
                 "body": [{"k": "call", "fn": "inc", "args": [["p", "a"]], "kwargs": {}, "flag": None, "out": "w0"},
                          {"k": "op", "op": "+", "a": ["v", "w0", []], "b": ["p", "a"], "out": "w1"}],
                 "ret": ["tuple", [["v", "w0", []], ["v", "w1", []]]], "subs": []},
}


SUBS["sub_kwidx"] = {"name": "sub_kwidx", "params": [["a", NODEFAULT]],
                     "body": [{"k": "call", "fn": "pair", "args": [["p", "a"]], "kwargs": {}, "flag": None, "out": "q"},
                              {"k": "call", "fn": "add", "args": [["v", "q", [0]]], "kwargs": {"y": ["v", "q", [1]]}, "flag": None, "out": "w0"},
                              {"k": "call", "fn": "pair_u", "args": [["v", "w0", []]], "kwargs": {}, "flag": None, "out": ["ua", "ub"]},
                              {"k": "call", "fn": "add", "args": [["p", "a"]], "kwargs": {"y": ["v", "ub", []]}, "flag": None, "out": "w1"}],
                     "ret": ["atom", ["v", "w1", []]], "subs": []}


def projections(var: str, kind: str) -> List[list]:
    if kind in ("int", "bool", "opt"):
        return [["v", var, []]]
    if kind == "tup":
        return [["v", var, [0]], ["v", var, [1]]]
    if kind == "dct":
        return [["v", var, ["k"]], ["v", var, ["l", 1]]]
    raise ValueError(kind)


def statements(i: int, env: List[Tuple[str, str]], params: List[str], ops: List[str], with_subs: bool) -> Iterator[Tuple[dict, List[Tuple[str, str]]]]:
    """All statements for position i given the typed environment `env` [(var, kind)] (most recent last).
    Yields (statement, new bindings)."""
    base = [["p", p] for p in params] + [["c", 2]]
    recent: List[list] = []
    for var, kind in env[-2:]:
        recent += projections(var, kind)
    last = projections(*env[-1]) if env else []
    pool = base + recent
    out = f"v{i}"

    def pairs():
        # 2-argument slots: when a variable exists at least one argument is a projection of the most recent one
        for a, b in itertools.product(pool, repeat=2):
            if env and a not in last and b not in last:
                continue
            yield a, b

    def singles():
        return last + base if env else base

    if i == 0 or True:
        yield {"k": "call", "fn": "k0", "args": [], "kwargs": {}, "flag": None, "out": out}, [(out, "int")]
    for a in singles():
        yield {"k": "call", "fn": "inc", "args": [a], "kwargs": {}, "flag": None, "out": out}, [(out, "int")]
        yield {"k": "call", "fn": "add", "args": [a], "kwargs": {}, "flag": None, "out": out}, [(out, "int")]
        yield {"k": "call", "fn": "pair_u", "args": [a], "kwargs": {}, "flag": None, "out": [out + "a", out + "b"]}, [(out + "a", "int"), (out + "b", "int")]
        yield {"k": "call", "fn": "pair", "args": [a], "kwargs": {}, "flag": None, "out": out}, [(out, "tup")]
        yield {"k": "call", "fn": "mkd", "args": [a], "kwargs": {}, "flag": None, "out": out}, [(out, "dct")]
        yield {"k": "call", "fn": "nonef", "args": [a], "kwargs": {}, "flag": None, "out": out}, [(out, "opt")]
        yield {"k": "call", "fn": "ident", "args": [a], "kwargs": {}, "flag": None, "out": out}, [(out, "opt")]
        if a[0] != "c":
            yield {"k": "uop", "op": "-", "a": a, "out": out}, [(out, "int")]
            yield {"k": "logic", "fn": "not_", "args": [a], "out": out}, [(out, "bool")]
        # flagged call with a plain flag (const / param / whole result)
        flags = [["c", True], ["c", False], ["p", params[0]]] + ([["v", env[-1][0], []]] if env and env[-1][1] in ("int", "bool", "opt") else [])
        for f in flags:
            yield {"k": "call", "fn": "inc", "args": [a], "kwargs": {}, "flag": f, "out": out}, [(out, "opt")]
        if with_subs:
            yield {"k": "sub", "dag": "sub_inc", "args": [a], "flag": None, "out": out}, [(out, "int")]
            yield {"k": "sub", "dag": "sub_add", "args": [a], "flag": None, "out": out}, [(out, "int")]
            yield {"k": "sub", "dag": "sub_pair", "args": [a], "flag": None, "out": [out + "a", out + "b"]}, [(out + "a", "int"), (out + "b", "int")]
            yield {"k": "sub", "dag": "sub_kwidx", "args": [a], "flag": None, "out": out}, [(out, "int")]
    for a, b in pairs():
        yield {"k": "call", "fn": "add", "args": [a, b], "kwargs": {}, "flag": None, "out": out}, [(out, "int")]
        yield {"k": "call", "fn": "add", "args": [a], "kwargs": {"y": b}, "flag": None, "out": out}, [(out, "int")]
        if a[0] != "c" or b[0] != "c":
            for op in ops:
                yield {"k": "op", "op": op, "a": a, "b": b, "out": out}, [(out, "int")]
            yield {"k": "logic", "fn": "and_", "args": [a, b], "out": out}, [(out, "int")]
            yield {"k": "logic", "fn": "or_", "args": [a, b], "out": out}, [(out, "int")]
        if with_subs and (a[0] != "c" or b[0] != "c"):
            yield {"k": "sub", "dag": "sub_add", "args": [a, b], "flag": None, "out": out}, [(out, "int")]


def returns(env: List[Tuple[str, str]], params: List[str]) -> List[list]:
    """Return shapes: None, single, tuple, list, dict, with constants, an input returned directly."""
    if not env:
        return [["none"]]
    allv = [["v", v, []] for v, _ in env]
    last = allv[-1]
    return [
        ["atom", last],
        ["tuple", allv],
        ["list", allv],
        ["dict", {f"r{j}": a for j, a in enumerate(allv)}],
        ["tuple", allv + [["c", 11]]],
        ["tuple", [["p", params[0]], last]],
        ["dict", {"c": ["c", "z"], "v": last}],
        ["none"],
        ["atom", ["c", 3]],
    ]


def uses_subs(body) -> list:
    names = []
    for st in body:
        if st["k"] == "sub" and st["dag"] not in names:
            names.append(st["dag"])
    return [SUBS[n] for n in names]


def programs(max_len: int, params_variants, ops, with_subs=True, chain3_only=False) -> Iterator[dict]:
    """Simplest first: by length. For length 3 with chain3_only, statement 2 and 3 must use the previous variable
    (already enforced by `pairs`/`singles` preferring the most recent var; chain3_only additionally drops base-only singles)."""
    for params in params_variants:
        pnames = [p[0] for p in params]

        def rec(i, env, body):
            if i > 0:
                yield body, env
            if i == max_len:
                return
            for st, binds in statements(i, env, pnames, ops, with_subs):
                if chain3_only and max_len >= 3 and i >= 1:
                    # statement must mention the most recent variable
                    txt = repr(st)
                    if not any(repr(env[-1][0]) in txt for _ in [0]):
                        continue
                yield from rec(i + 1, env + binds, body + [st])

        for body, env in rec(0, [], []):
            yield {"name": "main", "params": [list(p) for p in params], "body": body, "env": env, "subs": uses_subs(body)}


PARAMS_X = [("x", NODEFAULT)]
PARAMS_XY = [("x", NODEFAULT), ("y", 4)]


def inputs_for(params) -> List[tuple]:
    if len(params) == 1:
        return [(0,), (3,), (-2,)]
    return [(0,), (3,), (-2,), (0, 7), (3, 7), (-2, 7)]
