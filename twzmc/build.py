"""IR -> Python source text -> exec -> real @xn / @dag objects."""
from __future__ import annotations

import linecache
import itertools
from typing import Any, Dict

from . import harness as H

_counter = itertools.count()


def exec_source(src: str, name: str = "d") -> Dict[str, Any]:
    """Exec generated source as a pseudo file (so that inspect / call locations work)."""
    H.install()
    fname = f"<twzmc-{next(_counter)}>"
    linecache.cache[fname] = (len(src), None, src.splitlines(True), fname)
    ns: Dict[str, Any] = {"__name__": "twzmc_generated", "__file__": fname}
    exec(compile(src, fname, "exec"), ns)  # noqa: S102
    ns["__src_file__"] = fname
    return ns


class _NoFrames:
    """Stand-in for the `inspect` module in tawazi.node.node: an interpreter without stack frame support."""

    def currentframe(self):
        return None


def build_gprog(prog, returns: str = "all", noloc: bool = False):
    if noloc:
        import tawazi.node.node as NN

        real = NN.inspect
        NN.inspect = _NoFrames()
        try:
            return build_gprog(prog, returns)
        finally:
            NN.inspect = real
    H.Tok.FALSY = set(prog.falsy)
    ids = prog.ids()
    H.FAIL.clear()
    H.RET_NONE.clear()
    for i, n in enumerate(prog.nodes):
        if n.fail:
            H.FAIL[ids[i]] = n.fail
        if n.retnone:
            H.RET_NONE.add(ids[i])
    ns = exec_source(prog.source(returns))
    return ns[prog.name], ns
