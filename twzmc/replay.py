"""./check --replay <file>: re-run one recorded violation against the current tree, without the explorer."""
from __future__ import annotations

import importlib
import json
import sys


def main() -> int:
    path = sys.argv[1]
    with open(path) as f:
        v = json.load(f)
    from . import cfgvariant
    cfgvariant.pre_import()
    import tawazi  # noqa: F401
    cfgvariant.post_import()
    mod = importlib.import_module(f"twzmc.checks.{v['property'].lower()}")
    print(f"replaying {v['property']} {v['kind']}: {v['msg']}")
    if v.get("source"):
        print("---- program")
        print(v["source"])
    viols, trace = mod.replay(v)
    if trace is not None:
        print("---- trace")
        for e in trace:
            print("   ", e)
    same = [x for x in viols if x["kind"] == v["kind"]]
    for x in viols:
        print("REPRODUCED" if x["kind"] == v["kind"] else "OTHER-FINDING", x["kind"], x["msg"])
    if same:
        print(f"VIOLATION property={v['property']} replay={path}")
        return 1
    print("not reproduced on the current tree")
    return 0


if __name__ == "__main__":
    import os
    try:
        rc = main()
    except BaseException:  # noqa: BLE001 - worker threads of a deadlocked tree must not keep the process alive
        import traceback
        traceback.print_exc()
        rc = 3
    sys.stdout.flush()
    sys.stderr.flush()
    os._exit(rc)
