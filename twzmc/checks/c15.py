"""C15 - calls do not leak state: a DAG (and an executor) behaves as if freshly built."""
from __future__ import annotations

import itertools

from .. import harness as H
from ..gprog import NODEFAULT, Edge, GNode, GProg
from ..hist import Instance
from ..hist import run_op as _run_op
from ..monitors import V, View, mon_c02, mon_c03, mon_c06
from ..sched import selection_set
from ..spaces import shard_iter

ID = "C15"
BUDGET = {"quick": 240, "thorough": 600}
PX, PY = Edge(-1, "pos"), Edge(-2, "pos")


def dag_of(name: str, is_async: bool):
    """-> (prog, index of the node that raises when it receives 'BAD')"""
    if name == "linear":
        nodes = (GNode(edges=(PX,)), GNode(edges=(PY, Edge(0, "kw")), res="m"), GNode(edges=(Edge(1, "kw", ("k",)), Edge(0, "pos"))))
        f = 1
    elif name == "diamond":
        nodes = (GNode(edges=(PX,)), GNode(edges=(Edge(0, "pos"),), consts=(5,)), GNode(edges=(Edge(0, "kw"), Edge(-1, "flag")), res="a"),
                 GNode(edges=(Edge(1, "pos"), Edge(2, "pos"), PY)))
        f = 3
    else:
        nodes = (GNode(setup=True), GNode(edges=(Edge(0, "pos"), PX, PY)), GNode(edges=(Edge(1, "pos", ("k",)),), res="m"))
        f = 1
    return GProg(nodes=nodes, mc=2, is_async=is_async, params=(("x", NODEFAULT), ("y", 7))), f


def run_op(acc, c, names, inst, kind, *a, **k):
    """calls and executors created NOW are also judged by the priority rule (a reconfiguration between two calls must show in the
    order of the next call); an executor object created earlier keeps whatever tables it was built with (not specified)"""
    if kind in ("call", "executor"):
        k.setdefault("monitors", (mon_c02, mon_c03, mon_c06))
    return _run_op(acc, c, names, inst, kind, *a, **k)


DAGS = ["linear", "diamond", "setup"]
MENU = ["call(a1,a2)", "call(a5)", "call(a1,BAD)", "call()", "e=executor()", "e=executor(T=[n1])", "e(a1,a2)", "e(a1,BAD)",
        "compose+call", "config same", "config changed", "deepcopy", "setup()", "setup(T=[last])", "executor(T=[n1],X=[last]) created"]


def cases(tier: str):
    q = tier == "quick"
    yield dict(special="setup_arg", dag="setup", is_async=False, hist=[])
    for depth in ((0, 1, 2, 3) if q else (0, 1, 2, 3, 4)):
        for name in DAGS:
            for is_async in (False, True):
                for hist in itertools.product(range(len(MENU)), repeat=depth):
                    if depth >= 3 and is_async and q:
                        continue
                    if depth == 4 and not ((2 in hist or 7 in hist or 3 in hist) and (6 in hist or 7 in hist or 8 in hist or 11 in hist)):
                        continue  # depth 4: histories with a failing operation and an executor run / compose / copy
                    yield dict(dag=name, is_async=is_async, hist=list(hist))


def results_ok(acc, c, names, inst, base_keys):
    ids = inst.prog.ids()
    setup_ids = {ids[i] for i, nd in enumerate(inst.prog.nodes) if nd.setup}
    extra = set(inst.d.results.keys()) - base_keys
    if not extra <= setup_ids:
        acc.violation(V("dag_results_grew", f"history {names}: dag.results gained {sorted(extra - setup_ids)} (only setup results may be kept)"), dict(c, history=names))


SETUP_ARG_SRC = '''
from tawazi import xn, dag
import twzmc.harness as H
@xn(setup=True)
def load(*a, **k):
    return H.node_body("load", a, k)
@xn
def use(*a, **k):
    return H.node_body("use", a, k)
@dag
def pipe(flag, name="base"):
    m = load({args})
    return use(m)
'''


def setup_arg_case(acc, c):
    """state kept between calls is limited to setup results, and those may not depend on call arguments: a setup node fed by a
    DAG argument (positional, keyword, indexed, as activation flag, defaulted or required) is refused when the DAG is built"""
    from tawazi.errors import TawaziBaseException

    from ..build import exec_source
    acc.cases += 1
    for args in ("flag", "name", "x=flag", "x=name", "flag[0]", "twz_active=flag", "twz_active=name", "1, twz_active=flag"):
        src = SETUP_ARG_SRC.format(args=args)
        acc.evaluations += 1
        acc.mark_nontrivial(("setup_arg", args))
        try:
            ns = exec_source(src)
        except (TawaziBaseException, ValueError):
            continue
        # accepted: show the leak - the first call decides for all later ones
        d = ns["pipe"]
        r1 = H.run_controlled(lambda: d(False))
        r2 = H.run_controlled(lambda: d(True))
        acc.violation(V("setup_depends_on_argument", f"a setup node called as load({args}) with a DAG argument was accepted at build; pipe(False) -> {r1.value!r}, then pipe(True) -> {r2.value!r}",
                        form=args), dict(c, args=args), (), r2.trace, src)


def run_hist(acc, c):
    from tawazi.errors import TawaziUsageError

    if c.get("special") == "setup_arg":
        return setup_arg_case(acc, c)

    p, fidx = dag_of(c["dag"], c["is_async"])
    ids = p.ids()
    acc.cases += 1
    H.FAIL_IF_ARG.clear()
    inst = Instance(p)
    H.FAIL_IF_ARG[ids[fidx]] = "BAD"
    base_keys = set(inst.d.results.keys())
    e = None  # {"obj", "sel", "state"}
    names = []
    original = None
    for k in c["hist"]:
        name = MENU[k]
        names.append(name)
        if k == 0:
            run_op(acc, c, names, inst, "call", None, ("a1", "a2"))
        elif k == 1:
            run_op(acc, c, names, inst, "call", None, ("a5",))
        elif k == 2:
            run_op(acc, c, names, inst, "call", None, ("a1", "BAD"), expect="raise")
        elif k == 3:
            run_op(acc, c, names, inst, "call", None, (), expect="raise")
        elif k in (4, 5):
            sel = None if k == 4 else {"T": [1]}
            kw = {} if sel is None else {"target_nodes": [ids[1]]}
            try:
                e = {"obj": inst.d.executor(**kw), "sel": sel, "state": "fresh", "inst": inst}
            except Exception as e_:  # noqa: BLE001
                acc.evaluations += 1
                acc.violation(V("executor_refused", f"history {names}: creating executor({kw}) raised {e_!r} (state left behind by the earlier operations?)"),
                              dict(c, history=names), (), None, p.source())
                e = None
        elif k in (6, 7):
            if e is None:
                continue
            args = ("a1", "a2") if k == 6 else ("a1", "BAD")
            selset = selection_set(p, e["sel"]) if e["sel"] else set(range(len(ids)))
            will_fail = k == 7 and fidx in selset
            if e["state"] == "fresh":
                res, view = run_op(acc, c, names, e["inst"], "executor_obj", None, args, executor_obj=e["obj"],
                                   expect="raise" if will_fail else "return", sel_override=selset)
                e["state"] = "failed" if res.outcome == "raise" else "done"
            elif e["state"] == "done":
                res = H.run_controlled(_wrap(p, lambda: e["obj"](*args)), is_async=p.is_async)
                acc.evaluations += 1
                if res.outcome != "raise" or not isinstance(res.exc, TawaziUsageError) or any(x[0] == "enter" for x in res.trace):
                    acc.violation(V("executor_reused", f"history {names}: an executed executor ran again: {res.outcome} {res.exc!r}"), dict(c, history=names), (), res.trace, p.source())
            else:  # failed before: refuse, or run the COMPLETE selection from scratch
                res = H.run_controlled(_wrap(p, lambda: e["obj"](*args)), is_async=p.is_async)
                acc.evaluations += 1
                acc.mark_nontrivial(("rerun_after_failure", c["dag"], tuple(c["hist"])))
                if res.outcome == "raise" and isinstance(res.exc, TawaziUsageError):
                    pass
                else:
                    view = View(p, res, selset, e["inst"].pre, False, args)
                    entered = set(view.enters)
                    must = {ids[i] for i in selset if i not in e["inst"].pre and view.status[i] == "run"}
                    if will_fail:
                        # a complete run fails again at the same node: everything upstream of it must have been entered again
                        must = {ids[i] for i in p.anc(fidx) | {fidx} if i in selset and i not in e["inst"].pre}
                    if not must <= entered:
                        acc.violation(V("executor_partial_rerun",
                                        f"history {names}: executor re-run after a failed run entered only {sorted(entered)} of its selection {sorted(must)} ({res.outcome} {res.exc!r})"),
                                      dict(c, history=names), (), res.trace, p.source())
                    elif res.outcome == "return":
                        for m in (mon_c02, mon_c03):
                            for viol in m(view):
                                acc.violation(dict(viol, msg=f"history {names}: " + viol["msg"]), dict(c, history=names), (), res.trace, p.source())
                        e["state"] = "done"
                        for i, st in view.status.items():
                            if st == "run" and p.nodes[i].setup and view.enters.get(ids[i]):
                                e["inst"].pre[i] = res.trace[view.enters[ids[i]][0]][2]
        elif k == 8:
            try:
                if c["dag"] == "linear":
                    comp = inst.d.compose("comp", [ids[0]], [ids[-1]])  # a node as input: its keyword / positional uses are rewired
                    cargs = ("c1",)
                else:
                    comp = inst.d.compose("comp", ..., [ids[-1]])
                    cargs = ("c1", "c2")
            except Exception as e_:  # noqa: BLE001
                acc.evaluations += 1
                acc.violation(V("compose_call", f"history {names}: compose() on the instance raised {e_!r} (state left behind by the earlier operations?)"),
                              dict(c, history=names), (), None, p.source())
                results_ok(acc, c, names, inst, base_keys)
                continue
            res = H.run_controlled(_wrap(p, lambda: comp(*cargs)), is_async=p.is_async)
            acc.evaluations += 1
            ok = res.outcome == "return" and isinstance(res.value, tuple) and len(res.value) == 1 and getattr(res.value[0], "label", None) == ids[-1]
            if not ok:
                acc.violation(V("compose_call", f"history {names}: composed DAG call gave {res.outcome} {res.value!r} {res.exc!r}"), dict(c, history=names), (), res.trace, p.source())
        elif k in (9, 10):
            pr = {i_: {"priority": (0 if k == 9 else (j * 2) % 7)} for j, i_ in enumerate(ids)}
            inst.d.config_from_dict({"nodes": pr})
            from dataclasses import replace as _rep
            inst.prog = _rep(inst.prog, nodes=tuple(_rep(nd, prio=(0 if k == 9 else (j * 2) % 7)) for j, nd in enumerate(inst.prog.nodes)))
        elif k == 11:
            if original is None:
                original = inst
            inst = inst.clone()
        elif k == 14:
            # an executor with a target AND an exclusion is only CREATED (never run): the DAG object is not affected by that
            try:
                inst.d.executor(target_nodes=[ids[1]], exclude_nodes=[ids[-1]])
            except Exception as e_:  # noqa: BLE001
                acc.violation(V("executor_refused", f"history {names}: executor(target_nodes=[{ids[1]}], exclude_nodes=[{ids[-1]}]) raised {e_!r}"),
                              dict(c, history=names), (), None, p.source())
        elif k in (12, 13):
            # setup() / setup(target_nodes=[last node]): runs the needed setup nodes only - never a non-setup node, whatever its depth
            run_op(acc, c, names, inst, "setup", None if k == 12 else {"T": [len(ids) - 1]}, ())
        results_ok(acc, c, names, inst, base_keys)
    # probes
    run_op(acc, c, names + ["probe call(p3)"], inst, "call", None, ("p3",))
    run_op(acc, c, names + ["probe executor()(p3,p4)"], inst, "executor", None, ("p3", "p4"))
    if original is not None:
        run_op(acc, c, names + ["probe original call(p3)"], original, "call", None, ("p3",))
    results_ok(acc, c, names + ["probes"], inst, base_keys)
    H.FAIL_IF_ARG.clear()
    acc.states += len(c["hist"]) + 2
    acc.transitions += len(c["hist"]) + 2
    if len(c["hist"]) >= 1:
        acc.mark_nontrivial((c["dag"], c["is_async"], tuple(c["hist"])))
    if acc.cases <= 2:
        acc.sample({"case": c, "ops": names})


def _wrap(p, f):
    if p.is_async:
        async def op():
            return await f()
        return op
    return f


def run_shard(tier, k, n, acc):
    from . import c17
    for c in shard_iter(itertools.chain(cases(tier), c17.overlap_subset(2), c17.overlap_subset(3)), k, n, acc):
        if c.get("kind") == "gather":
            # two / three awaits of one AsyncDAG object in flight together (one may start and end while another is in flight, a third
            # may start after that): the outcome of each depends only on its own arguments
            c17.run_gather(acc, c)
        else:
            run_hist(acc, c)


def replay(v):
    from ..acc import Acc
    a = Acc(ID, 0, 1, 600)
    c = v["case"]
    if c.get("kind") == "gather":
        from . import c17
        c17.run_gather(a, c, only_prefix=v["prefix"])
        return a.violations, None
    run_hist(a, {k: c[k] for k in ("dag", "is_async", "hist", "special") if k in c})
    return a.violations, None
