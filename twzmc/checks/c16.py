"""C16 - tawazi is thread-safe: concurrent runs and builds do not interfere."""
from __future__ import annotations

import os
import warnings
from typing import Any, Dict, List, Tuple

from .. import threads as T
from ..explore import BOUNDED_KINDS, StateCounter
from ..monitors import V
from ..spaces import shard_iter

ID = "C16"
BUDGET = {"quick": 300, "thorough": 1200}

LIB_SRC = '''
from tawazi import xn, dag, Resource
import twzmc.threads as T
M = Resource.main_thread

@xn(resource=M)
def inc(x):
    return x + 1

@xn(resource=M, priority=2)
def dbl(x):
    return 2 * x

@xn(resource=M)
def add(x, y=10):
    return x + y

@dag
def shared(x):
    return dbl(inc(x))

class Model:
    def __init__(self, k):
        self.k = k

    @xn(resource=M)
    def scale(self, x):
        return self.k * x

m1, m2 = Model(10), Model(1000)

@xn(setup=True, resource=M)
def prep():
    return 100

@xn(resource=M)
def use(p, x):
    T.rendezvous()  # (only in scenarios that ask for it) two calls in flight at the same time meet here
    return p + x

@dag
def shared_s(x):
    return use(prep(), x)

SEEN = []

@xn(debug=True, resource=M)
def probe(v):
    SEEN.append(v)
    return v

@dag
def shared_d(x):
    a = inc(x)
    probe(a)
    return a

@xn(resource=Resource.thread)
def p_inc(x):
    return x + 1

@xn(resource=Resource.async_thread, priority=3)
def p_dbl(x):
    return 2 * x

@xn(resource=Resource.thread, is_sequential=True)
def p_add(x, y):
    return x + y

@dag(max_concurrency=2)
def shared_p(x):
    # worker threads of the library's own pools run these node functions (they finish by themselves); the two SCHEDULERS interleave
    a = p_inc(x)
    b = p_dbl(x)
    return p_add(a, b)
'''

BUILD_SRC = {
    "build": '''
@dag
def d_build(x):
    a = inc(x)
    b = dbl(a)
    return b
''',
    "build2": '''
@dag
def d_build2(x, y=3):
    a = add(x, y)
    b = inc(a)
    return a, b
''',
    "build_pause": '''
@dag
def d_pause(x):
    a = inc(x)
    T.pause()
    b = dbl(a)
    c = inc(b)
    return a, b, c
''',
    "build_nest": '''
@dag
def d_nest(x):
    r = shared(x)
    T.pause()
    return inc(r)
''',
}
BUILD_SRC["build_fail"] = '''
@dag
def d_fail(x):
    a = inc(x)
    raise KeyError("user error inside the describing function")
'''
BUILD_SRC["build_fail_nested"] = '''
@dag
def flagged_inner(v, act):
    return inc(v, twz_active=act)

@dag
def d_fail_nested(x):
    a = inc(x)
    # documented RuntimeError raised INSIDE the nested-DAG call (an inner node already has its own flag)
    return flagged_inner(a, True, twz_active=a)
'''
BUILD_SRC["build_method"] = '''
@dag
def d_method(x):
    # the bound method is looked up BEFORE its argument list is evaluated; the build pauses in between
    return m1.scale(T.pause_value(inc(x)))
'''
BUILD_SRC["build_method2"] = '''
@dag
def d_method2(x):
    a = m2.scale(x)
    return m2.scale(a)
'''
DAG_NAME = {"build_method": "d_method", "build_method2": "d_method2", "build_fail_nested": "d_fail_nested", "build_fail": "d_fail", "build": "d_build", "build2": "d_build2", "build_pause": "d_pause", "build_nest": "d_nest"}

NS: Dict[str, Any] = {}


def lib():
    if not NS:
        T.install()
        exec(compile(LIB_SRC, "<c16-lib>", "exec"), NS)  # noqa: S102
    return NS


def table(d) -> tuple:
    rows = []
    for id_, x in d.exec_nodes.items():
        rows.append((id_, type(x).__name__, tuple((u.id, tuple(u.key)) for u in x.args),
                     tuple(sorted((k, (u.id, tuple(u.key))) for k, u in x.kwargs.items())),
                     (x.active.id, tuple(x.active.key)) if x.active is not None else None, x.priority, x.is_sequential))
    return (tuple(sorted(rows)), tuple(sorted((k, repr(v)) for k, v in d.results.items())), tuple(sorted(d.graph_ids.edges)),
            tuple(u.id for u in d.input_uxns))


def do_op(op: tuple, out: list) -> None:
    """Executes one operation inside a scenario thread; appends its outcome."""
    ns = lib()
    kind = op[0]
    try:
        if kind == "call":
            v = ns["shared"](op[1])
            out.append(("ok", repr(v)))
        elif kind in BUILD_SRC:
            loc = dict(ns)
            exec(compile(BUILD_SRC[kind], f"<c16-{kind}>", "exec"), loc)  # noqa: S102
            out.append(("built", loc[DAG_NAME[kind]]))
        elif kind == "setup_t":
            t0 = T.tick()
            FRESH["shared_2s"].setup(target_nodes=[op[1]])
            FRESH["OPS"].append((op[1], t0, T.tick(), T.me_tid()))  # this operation stored the result of that setup node between t0 and now
            out.append(("ok", "setup done"))
        elif kind == "call_2s":
            t0 = T.tick()
            v = FRESH["shared_2s"](op[1])
            t1 = T.tick()
            FRESH["OPS"] += [("pa", t0, t1, T.me_tid()), ("pb", t0, t1, T.me_tid())]
            out.append(("ok", repr(v)))
        elif kind == "setup_sp":
            FRESH["shared_sp"].setup()
            out.append(("ok", "setup done"))
        elif kind == "call_d":
            n0 = ns["SEEN"].count(op[1] + 1)  # (every call of a scenario has its own argument: count the probes of THIS call)
            v = ns["shared_d"](op[1])
            out.append(("ok", repr(v), "debug nodes run: %d" % (ns["SEEN"].count(op[1] + 1) - n0)))
        elif kind == "call_bad":
            out.append(("ok", repr(ns["shared"](op[1], op[1]))))  # too many positional arguments: the documented TypeError
        elif kind == "call_f":
            out.append(("ok", repr(FRESH["shared_f"](op[1]))))
        elif kind == "call_n":
            out.append(("ok", repr(FRESH["shared_n"](op[1]))))
        elif kind == "call_p":
            out.append(("ok", repr(ns["shared_p"](op[1]))))
        elif kind == "call_s":
            out.append(("ok", repr(ns["shared_s"](op[1]))))
        elif kind == "bare_method":
            with warnings.catch_warnings(record=True) as w:
                warnings.simplefilter("always")
                v = ns["m2"].scale(op[1])
            out.append(("ok", repr(v), tuple(sorted({type(x.message).__name__ for x in w}))))
        elif kind == "bare":
            with warnings.catch_warnings(record=True) as w:
                warnings.simplefilter("always")
                v = ns["inc"](op[1])
            out.append(("ok", repr(v), tuple(sorted({type(x.message).__name__ for x in w}))))
        else:
            raise ValueError(kind)
    except T.Deadlock:
        out.append(("deadlock",))
    except BaseException as e:  # noqa: BLE001
        out.append(("exc", type(e).__name__))


def finalize(outcome: tuple) -> tuple:
    """Post-process in the main thread, after all scenario threads are done: a built DAG -> (table, probe value)."""
    if outcome[0] == "built":
        d = outcome[1]
        try:
            probe = ("ok", repr(d(5)))
        except BaseException as e:  # noqa: BLE001
            probe = ("exc", type(e).__name__)
        return ("built", table(d), probe)
    return outcome


SCENARIOS: Dict[str, List[List[tuple]]] = {
    "call||call": [[("call", 1)], [("call", 2)]],
    "build||call": [[("build",)], [("call", 2)]],
    "build_pause||call": [[("build_pause",)], [("call", 2)]],
    "build_nest||call": [[("build_nest",)], [("call", 2)]],
    "build||build2": [[("build",)], [("build2",)]],
    "build_pause||build2": [[("build_pause",)], [("build2",)]],
    "build_pause||bare": [[("build_pause",)], [("bare", 3)]],
    "build||call||call": [[("build",)], [("call", 1)], [("call", 2)]],
    "build_pause||build||call": [[("build_pause",)], [("build",)], [("call", 2)]],
    "2ops": [[("build_pause",), ("call", 1)], [("call", 2), ("build2",)]],
    "failed_nested_build_then_nest||call": [[("build_fail_nested",), ("build_nest",)], [("call", 2), ("build_nest",)]],
    "call||bare": [[("call", 1)], [("bare", 3)]],
    "failed_build_then_call||build_pause": [[("build_fail",), ("call", 1), ("bare", 4)], [("build_pause",)]],
    "failed_build_then_build||build_pause": [[("build_fail",), ("build",)], [("build_pause",), ("call", 2)]],
    # decorated METHODS: a build that pauses between looking the bound method up and calling it, next to uses of the same method of
    # another instance (outside any DAG, and in another build)
    "build_method||bare_method": [[("build_method",)], [("bare_method", 3)]],
    "build_method||build_method2": [[("build_method",)], [("build_method2",)]],
    # two calls of one DAG (its setup node already executed) whose nodes need each other to be running at the same time
    "call_s||call_s+rendezvous": [[("call_s", 1)], [("call_s", 2)]],
    "call_s||call_s": [[("call_s", 1)], [("call_s", 2)]],
}
SCENARIOS["pooled_call||pooled_call"] = [[("call_p", 1)], [("call_p", 5)]]
SCENARIOS["pooled_call||build"] = [[("call_p", 1)], [("build",)]]
# a call that is refused (too many arguments) in one thread, then calls in both threads: nothing stays locked behind the refusal
SCENARIOS["refused_call_then_call||call"] = [[("call_bad", 1), ("call", 3)], [("call", 2), ("call_p", 2)]]
# two targeted setup() calls for different setup nodes of one DAG, then a call: afterwards every setup node has run exactly once
SCENARIOS["setup(pa)||setup(pb)"] = [[("setup_t", "pa"), ("call_2s", 1)], [("setup_t", "pb")]]
SCENARIOS["call||setup(pb)"] = [[("call_2s", 1), ("call_2s", 2)], [("setup_t", "pb")]]
# RUN_DEBUG_NODES is on: a setup() that takes its time in one thread, a call of a DAG with a debug node in the other, then calls in both
SCENARIOS["slow_setup||debug_call"] = [[("setup_sp",), ("call_d", 1)], [("call_d", 2), ("call_d", 3)]]
SCENARIOS["slow_setup||slow_setup"] = [[("setup_sp",), ("call_d", 1)], [("setup_sp",), ("call_d", 2)]]
DEBUG_ON = {"slow_setup||debug_call", "slow_setup||slow_setup"}
FRESH_SRC = '''
@xn(resource=M, priority=2)
def use_p(p, x):
    return p + x

@xn(resource=M, priority=3)
def inc_p(x):
    return x + 1

@dag
def shared_f(x):
    # (priorities: the compound-priority table of the object is compared with a freshly built one after the scenario)
    return inc_p(use_p(prep(), x))

@dag
def shared_n(x):
    # no setup node at all: two threads may make the very first calls of this object at the same moment
    return inc_p(use_p(7, x))

@xn(setup=True, resource=M)
def slow_prep():
    T.pause()  # a setup node that takes its time: other threads run meanwhile
    return 7

@dag
def shared_sp(x):
    return add(x, slow_prep())

RUNS = []  # (setup node, logical time at which its function was entered)

@xn(setup=True, resource=M)
def pa():
    RUNS.append(("pa", T.tick(), T.me_tid()))
    T.pause()
    return 1

@xn(setup=True, resource=M)
def pb():
    RUNS.append(("pb", T.tick(), T.me_tid()))
    T.pause()
    return 2

@dag
def shared_2s(x):
    return add(add(x, pa()), pb())
'''
FRESH: Dict[str, Any] = {}  # DAG objects rebuilt before every execution of a scenario (their setup node has never run)
SCENARIOS["first_call||first_call"] = [[("call_f", 1)], [("call_f", 2)]]  # both calls find the setup node still to be executed
# the first two calls of a freshly built DAG object that has NO setup node, made by two threads together (inside C16's quantifier)
SCENARIOS["fresh_call||fresh_call"] = [[("call_n", 1)], [("call_n", 2)]]
RENDEZVOUS = {"call_s||call_s+rendezvous": 2}
PRE_SETUP = {"call_s||call_s+rendezvous", "call_s||call_s"}
BARE_BEHAVIOURS = ["ignore", "warning", "error"]


# quick tier: scenarios explored at LINE level (one preemption at every source line of tawazi); the others are explored at their
# synchronisation points in quick and at line level in thorough
QUICK_LINE = ("build||call", "build_pause||call", "build_nest||call", "build||build2", "build_pause||bare", "first_call||first_call", "fresh_call||fresh_call",
              "setup(pa)||setup(pb)", "call||setup(pb)", "slow_setup||debug_call", "build_method||bare_method", "call_s||call_s")


def cases(tier: str):
    q = tier == "quick"
    for name in SCENARIOS:
        for beh in (BARE_BEHAVIOURS if "bare" in name else ["error"]):
            yield dict(scenario=name, behaviour=beh, mode="sync", preempt=2 if q else 3, part=0, parts=1)
    for beh in ("error", "warning"):
        # a bare call in one thread while a node of a running DAG executes in another: every source line is a switching point
        yield dict(scenario="call||bare", behaviour=beh, mode="line", preempt=1, part=0, parts=1)
    # line-level preemption: sharded over the position of the first preemption
    parts = 7 if q else 15  # (coprime with the number of workers: the heavy first parts spread over all of them)
    for name in SCENARIOS:
        if q and name not in QUICK_LINE:
            continue
        for beh in (BARE_BEHAVIOURS[:1] + BARE_BEHAVIOURS[2:] if "bare" in name else ["error"]):
            for part in range(parts):
                yield dict(scenario=name, behaviour=beh, mode="line", preempt=1 if q else 2, part=part, parts=parts)


def run_scenario(ops: List[List[tuple]], prefix, line_mode: bool, rv: int = 0, pre_setup: bool = False):
    outs: List[list] = [[] for _ in ops]
    if pre_setup:
        lib()["shared_s"].setup()
    if any(op[0] in ("call_f", "call_n", "setup_sp", "setup_t", "call_2s") for th in ops for op in th):
        loc = dict(lib())
        exec(compile(FRESH_SRC, "<c16-fresh>", "exec"), loc)  # noqa: S102
        FRESH["shared_f"] = loc["shared_f"]
        FRESH["shared_n"] = loc["shared_n"]
        FRESH["shared_sp"] = loc["shared_sp"]
        FRESH["shared_2s"] = loc["shared_2s"]
        FRESH["RUNS"] = loc["RUNS"]
        FRESH["OPS"] = []

    def body(i):
        def f():
            for op in ops[i]:
                s = T.SCHED
                if s is not None:
                    s.point("op")
                do_op(op, outs[i])
        return f

    repo = os.environ.get("VERIF_REPO", "/repo")
    s = T.TSched([body(i) for i in range(len(ops))], prefix, line_mode, os.path.realpath(repo) + "/tawazi/")
    if rv:
        s.rv = T.Rendezvous(rv)
    s.run()
    final = [[finalize(o) for o in out] for out in outs]
    s.final = final
    s.tables_differ = []
    used = {"call_f": "shared_f", "call_n": "shared_n", "setup_sp": "shared_sp", "setup_t": "shared_2s", "call_2s": "shared_2s"}
    names = sorted({used[op[0]] for th in ops for op in th if op[0] in used})
    if names:
        # the tables of a DAG object after concurrent use equal those of the same DAG built just now by one thread
        loc2 = dict(lib())
        exec(compile(FRESH_SRC, "<c16-fresh-ref>", "exec"), loc2)  # noqa: S102
        for nm in names:
            got, ref = FRESH[nm].graph_ids, loc2[nm].graph_ids
            if dict(got.compound_priority) != dict(ref.compound_priority):
                s.tables_differ.append((nm, dict(got.compound_priority), dict(ref.compound_priority)))
    s.late_runs = []
    if any(op[0] in ("setup_t", "call_2s") for th in ops for op in th):
        # a setup node entered AFTER an operation that stores its result had already ended: the stored result was lost
        for node, t, tid in FRESH["RUNS"]:
            mine = [t0 for (n_, t0, end, tid_) in FRESH["OPS"] if tid_ == tid and t0 <= t <= end]
            start = mine[0] if mine else t  # (an operation that raised is not in OPS: judge by the time of the run itself)
            if any(n_ == node and end < start for (n_, _t0, end, _tid) in FRESH["OPS"]):
                s.late_runs.append(node)
    return s


def explore_threads(run_one, preempt_budget, part, parts, max_execs=None):
    """Stateless DFS; preemptions ('pre' choices) bounded; the top level is sharded over `parts`."""
    stack = [()]
    n = 0
    while stack:
        prefix = stack.pop()
        if prefix == () and part != 0:
            res = run_one(prefix)  # needed to discover the choice points, not reported
            report = False
        else:
            res = run_one(prefix)
            report = True
        n += 1
        if report:
            yield prefix, res
        if max_execs is not None and n >= max_execs:
            return
        ch = res.choices
        taken = tuple(c for _, _, c in ch)
        used = sum(1 for (k, _, c) in ch[: len(prefix)] if k == "pre" and c != 0)
        new = []
        for i in range(len(prefix), len(ch)):
            kind, k, c = ch[i]
            if kind == "pre" and preempt_budget is not None and used + 1 > preempt_budget:
                continue
            for alt in range(1, k):
                new.append(taken[:i] + (alt,))
        if prefix == ():
            new = [x for j, x in enumerate(new) if j % parts == part]
        stack.extend(reversed(new))


_BASE: Dict[tuple, tuple] = {}


def baseline(op: tuple, behaviour: str) -> tuple:
    """Outcome of the operation run alone (one thread, nothing else going on)."""
    key = (op, behaviour)
    if key not in _BASE:
        s = run_scenario([[op]], (), False)
        _BASE[key] = s.final[0][0]
    return _BASE[key]


def run_case(acc, c, only_prefix=None):
    from tawazi import cfg
    from tawazi.consts import XNOutsideDAGCall

    lib()
    import time as _time
    _t0 = _time.time()
    ops = SCENARIOS[c["scenario"]]
    old = cfg.TAWAZI_EXECNODE_OUTSIDE_DAG_BEHAVIOR
    cfg.TAWAZI_EXECNODE_OUTSIDE_DAG_BEHAVIOR = XNOutsideDAGCall(c["behaviour"])
    debug_on = c["scenario"] in DEBUG_ON
    acc.cases += 1
    sc = StateCounter()
    try:
        cfg.RUN_DEBUG_NODES = debug_on
        want = [[baseline(op, c["behaviour"] + ("+debug" if debug_on else "")) for op in th] for th in ops]
        line = c["mode"] == "line"

        def run_one(prefix):
            cfg.RUN_DEBUG_NODES = debug_on  # (set before EVERY execution: a tree that leaves the flag changed must not hide it)
            return run_scenario(ops, prefix, line, RENDEZVOUS.get(c["scenario"], 0), c["scenario"] in PRE_SETUP)

        outcomes = set()
        it = [(tuple(only_prefix), run_one(tuple(only_prefix)))] if only_prefix is not None else \
            explore_threads(run_one, c["preempt"], c["part"], c["parts"])
        for prefix, s in it:
            if acc.out_of_time():
                acc.capped_at = acc.cases
                break
            acc.evaluations += 1
            sc.add(s)
            outcomes.add(repr(s.final))
            case = dict(c)
            if s.outcome != "ok":
                acc.violation(V("thread_" + s.outcome, f"scenario {c['scenario']}: {s.outcome} (some thread is left blocked)"), case,
                              tuple(x for _, _, x in s.choices), None, "")
                if s.outcome in ("hang", "livelock"):
                    # a thread that neither finishes nor reaches a scheduling point may be SPINNING: it keeps the interpreter busy for the
                    # rest of this process, so the shard ends here (what was found so far is reported, the run is marked non-exhaustive)
                    from ..acc import StopShard
                    acc.capped_at = acc.cases
                    acc.extra["stopped_after_thread_hang"] = 1
                    raise StopShard()
                continue
            for nm, got_t, ref_t in getattr(s, "tables_differ", []):
                acc.violation(V("tables_changed_by_concurrent_use", f"scenario {c['scenario']} ({c['mode']}): compound priorities of {nm} after the scenario {got_t}, "
                                f"freshly built {ref_t}", scenario=c["scenario"]), case, tuple(x for _, _, x in s.choices), None, "")
            twice = sorted(set(getattr(s, "late_runs", [])))
            if twice:
                acc.violation(V("setup_node_ran_twice", f"scenario {c['scenario']} ({c['mode']}): setup node(s) {twice} of one DAG object executed again AFTER an operation that "
                                f"had stored their result was over (a result stored by one thread was lost by the other)", scenario=c["scenario"]), case, tuple(x for _, _, x in s.choices), None, "")
            for ti, (got_t, want_t) in enumerate(zip(s.final, want)):
                for oi, (got, w) in enumerate(zip(got_t, want_t)):
                    if got != w:
                        op = ops[ti][oi]
                        what = "built DAG differs from the DAG built alone" if got[0] == "built" and w[0] == "built" else "outcome differs from the operation run alone"
                        acc.violation(V("interference", f"scenario {c['scenario']} ({c['mode']}): thread {ti} op {op}: {what}: got {short(got)}, alone {short(w)}",
                                        op=op[0], scenario=c["scenario"]), case, tuple(x for _, _, x in s.choices), None, "")
                if len(got_t) != len(want_t):
                    acc.violation(V("op_missing", f"scenario {c['scenario']}: thread {ti} finished {len(got_t)} of {len(want_t)} operations"), case,
                                  tuple(x for _, _, x in s.choices), None, "")
            if len(s.choices) > 0:
                acc.mark_nontrivial((c["scenario"], c["behaviour"], c["mode"], tuple(x for _, _, x in s.choices)))
        acc.extra["distinct_final_states"] = acc.extra.get("distinct_final_states", 0) + len(outcomes)
        s_, t_ = sc.counts()
        acc.states += s_
        acc.transitions += t_
        if acc.cases <= 2:
            acc.sample({"case": c, "ops": ops, "alone": [[short(w) for w in th] for th in want]})
    finally:
        cfg.TAWAZI_EXECNODE_OUTSIDE_DAG_BEHAVIOR = old
        cfg.RUN_DEBUG_NODES = False
        k_ = f"seconds[{c['scenario']}|{c['mode']}]"
        acc.extra[k_] = round(acc.extra.get(k_, 0) + _time.time() - _t0, 1)


def short(o):
    r = repr(o)
    return r if len(r) < 400 else r[:400] + "..."


def run_shard(tier, k, n, acc):
    for c in shard_iter(cases(tier), k, n, acc):
        run_case(acc, c)


def replay(v):
    from ..acc import Acc
    a = Acc(ID, 0, 1, 600)
    run_case(a, v["case"], only_prefix=v["prefix"])
    return a.violations, None
