"""C05 - a sequential node never overlaps any other node of its execution."""
from __future__ import annotations

from ..gprog import res_menu, seq_menu, shapes
from ..monitors import mon_c05
from ..sched import replay_case, run_case
from ..spaces import all_res, all_seq, desc_prio, shard_iter

ID = "C05"
BUDGET = {"quick": 240, "thorough": 900}
MONITORS = [mon_c05]


def cases(tier: str):
    q = tier == "quick"
    for n in (1, 2, 3):
        for es in shapes(n):
            for seq in all_seq(n):
                if not any(seq):
                    continue
                for res in all_res(n):
                    for mc in (1, 2, 3):
                        for prio in ((0,) * n, desc_prio(n)):
                            for is_async in (False, True):
                                yield dict(n=n, es=es, seq=seq, res=res, mc=mc, prio=prio, is_async=is_async, ties=1 if q else None)
    n = 4
    for es in shapes(n):
        for seq in all_seq(n):
            if not any(seq):
                continue
            for res in res_menu(n):
                for mc in (1, 2, 3):
                    for prio in (((0,) * n,) if q else ((0,) * n, desc_prio(n))):
                        for is_async in ((False,) if q else (False, True)):
                            yield dict(n=n, es=es, seq=seq, res=res, mc=mc, prio=prio, is_async=is_async, ties=1 if q else None)
    # early-completion slice: a pooled node may finish at any scheduler step (visible to code polling future.done())
    for n in (2, 3, 4):
        for es in shapes(n):
            if n == 4 and len(es) > 1:
                continue
            for seq in seq_menu(n)[1:n + 1]:
                ress = all_res(n) if n <= 3 else [r for r in all_res(n) if r.count("m") == 1] + ["tttt", "aaaa"]
                for res in ress:
                    if all(x == "m" for x in res):
                        continue
                    for mc in (2, 3):
                        for is_async in ((False,) if q else (False, True)):
                            yield dict(n=n, es=es, seq=seq, res=res, mc=mc, prio=(0,) * n, is_async=is_async, ties=0, early=1)
    if not q:
        n = 5
        for es in shapes(n):
            for seq in seq_menu(n):
                if not any(seq):
                    continue
                for res in ("t" * n, "tatat"):
                    for mc in (2, 3):
                        yield dict(n=n, es=es, seq=seq, res=res, mc=mc, prio=(0,) * n, is_async=False, ties=2)


def nontrivial(view):
    # a sequential node ran while some unrelated node took part in the execution
    p = view.prog
    for i, nd in enumerate(p.nodes):
        if nd.seq and view.enters.get(view.ids[i]):
            rel = p.anc(i) | p.desc(i) | {i}
            if any(j not in rel and view.enters.get(view.ids[j]) for j in range(len(p.nodes))):
                return tuple(e[1] for e in view.trace if e[0] in ("enter", "exit"))
    return None


def all_cases(tier):
    import itertools

    from ..spaces import cross_families, foreign_quick_cases
    its = [cases(tier), cross_families(tier)]
    if tier != "quick":
        its.append(foreign_quick_cases("c05"))
    return itertools.chain(*its)


def run_shard(tier, k, n, acc):
    for c in shard_iter(all_cases(tier), k, n, acc):
        run_case(acc, c, MONITORS, nontrivial)


def replay(v):
    res, viols = replay_case(v["case"], MONITORS, v["prefix"])
    return viols, res.trace
