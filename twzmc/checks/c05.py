"""C05 - a sequential node never overlaps any other node of its execution."""
from __future__ import annotations

from ..gprog import GProg, prog_from_shape, res_menu, seq_menu, shapes, with_attrs
from ..monitors import mon_c05
from ..sched import replay_prog, run_prog
from ..spaces import all_res, all_seq, desc_prio, shard_iter

ID = "C05"
BUDGET = {"quick": 100, "thorough": 1500}
MONITORS = [mon_c05]


def cases(tier: str):
    for n in (1, 2, 3):
        for es in shapes(n):
            for seq in all_seq(n):
                if not any(seq):
                    continue
                for res in all_res(n):
                    for mc in (1, 2, 3):
                        for prio in ((0,) * n, desc_prio(n)):
                            for is_async in (False, True):
                                yield dict(n=n, es=es, seq=seq, res=res, mc=mc, prio=prio, is_async=is_async,
                                           ties=1 if tier == "quick" else None)
    n = 4
    for es in shapes(n):
        seqs = seq_menu(n) if tier == "quick" else all_seq(n)
        for seq in seqs:
            if not any(seq):
                continue
            for res in res_menu(n):
                for mc in ((2, 3) if tier == "quick" else (1, 2, 3)):
                    for prio in (((0,) * n,) if tier == "quick" else ((0,) * n, desc_prio(n))):
                        for is_async in ((False,) if tier == "quick" else (False, True)):
                            yield dict(n=n, es=es, seq=seq, res=res, mc=mc, prio=prio, is_async=is_async,
                                       ties=1 if tier == "quick" else None)
    if tier == "thorough":
        n = 5
        for es in shapes(n):
            for seq in seq_menu(n):
                if not any(seq):
                    continue
                for res in ("t" * n, "tatat"):
                    for mc in (2, 3):
                        yield dict(n=n, es=es, seq=seq, res=res, mc=mc, prio=(0,) * n, is_async=False, ties=2)


def prog_of(c) -> GProg:
    p = prog_from_shape(c["n"], [tuple(e) for e in c["es"]], mc=c["mc"], is_async=c["is_async"])
    return with_attrs(p, res=c["res"], seq=c["seq"], prio=c["prio"])


def nontrivial(view):
    # a sequential node ran while some unrelated node took part in the execution
    p = view.prog
    for i, nd in enumerate(p.nodes):
        if nd.seq and view.enters.get(view.ids[i]):
            rel = p.anc(i) | p.desc(i) | {i}
            if any(j not in rel and view.enters.get(view.ids[j]) for j in range(len(p.nodes))):
                return tuple(e[1] for e in view.trace if e[0] in ("enter", "exit"))
    return None


def run_shard(tier, k, n, acc):
    for c in shard_iter(cases(tier), k, n, acc):
        run_prog(acc, prog_of(c), MONITORS, tie_budget=c["ties"], nontrivial=nontrivial, case=c)


def replay(v):
    c = v["case"]
    res, viols = replay_prog(prog_of(c), MONITORS, v["prefix"])
    return viols, res.trace
