"""C06 - the node that starts is always a highest-compound-priority ready node."""
from __future__ import annotations

from ..gprog import prio_menu, seq_menu, shapes
from ..monitors import mon_c06
from ..sched import replay_case, run_case
from ..spaces import all_prio, prog_of, shard_iter, single_selections

ID = "C06"
BUDGET = {"quick": 240, "thorough": 900}
MONITORS = [mon_c06]


def res3(n):
    return ["t" * n, "m" * n, ("ta" * n)[:n]]


def cases(tier: str):
    q = tier == "quick"
    for n in (2, 3):
        for es in shapes(n):
            base = dict(n=n, es=es)
            sels = single_selections(prog_of(base))
            for prio in all_prio(n):
                for seq in (seq_menu(n)[:2] if q else seq_menu(n)):
                    for res in res3(n):
                        for mc in (1, 2, 3):
                            for sel in sels:
                                if q and sel is not None and (mc == 3 or seq != seq_menu(n)[0]):
                                    continue
                                yield dict(base, prio=prio, seq=seq, res=res, mc=mc, sel=sel, is_async=False, ties=1 if q else None)
    n = 4
    for es in shapes(n):
        base = dict(n=n, es=es)
        sels = single_selections(prog_of(base))
        for prio in (prio_menu(n) if q else all_prio(n)):
            for seq in (seq_menu(n)[:1] if q else seq_menu(n)[:3]):
                for res in (res3(n)[:1] + res3(n)[2:] if q else res3(n)):
                    for mc in ((1, 2) if q else (1, 2, 3)):
                        for sel in sels:
                            if sel is not None and (sel.get("X") is not None) and q:
                                continue
                            yield dict(base, prio=prio, seq=seq, res=res, mc=mc, sel=sel, is_async=False, ties=0 if q else 1)


def nontrivial(view):
    # a dispatch decision taken while >= 2 nodes with different reference compound priorities were ready
    for nid, t in view.dispatch.items():
        r = view.ready(t)
        if len({view.prog.cp_ref(m) for m in r}) >= 2:
            return tuple(sorted(view.dispatch.items(), key=lambda kv: kv[1]))
    return None


def all_cases(tier):
    import itertools

    from ..spaces import cross_families, foreign_quick_cases
    its = [cases(tier), cross_families(tier)]
    if tier != "quick":
        its.append(foreign_quick_cases("c06"))
    return itertools.chain(*its)


def run_shard(tier, k, n, acc):
    for c in shard_iter(all_cases(tier), k, n, acc):
        run_case(acc, c, MONITORS, nontrivial)


def replay(v):
    res, viols = replay_case(v["case"], MONITORS, v["prefix"])
    return viols, res.trace
