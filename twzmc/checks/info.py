"""Static description of every check: enumeration rule, bounds per tier, assumptions (for the evidence files)."""

COMMON_ASSUME = [
    "CPython, concurrent.futures, asyncio and networkx behave as documented",
    "the seams of twzmc/harness.py (hooked wait / asyncio.wait / ThreadPoolExecutor / max / ensure_future) are faithful: each delegates to the real primitive after deciding WHEN a pooled node completes",
    "a controlled execution completes a pooled node exactly when the scheduler observes it (latest possible moment): every controlled run is a feasible real run and every real run is observationally equal to one",
    "node bodies are harness functions returning value tokens; data values outside that alphabet are not covered",
]

INFO = {}


def reg(cid, rule, quick, thorough, assumptions=()):
    INFO[cid] = {"rule": rule, "bounds": {"quick": quick, "thorough": thorough}, "assumptions": COMMON_ASSUME + list(assumptions)}


reg("C05",
    "all labelled DAG shapes x subsets of sequential nodes x resource assignments x max_concurrency x priorities x flavour; for each, "
    "EVERY completion order of the nodes in flight and every tie-break (stateless DFS over the real scheduler). non-trivial = "
    "(case, schedule) in which a sequential node ran while a node that is neither its ancestor nor its descendant took part",
    "N<=3: SEQ* x RES* x mc{1,2,3} x prio{0,desc} x {DAG,AsyncDAG}; N=4: SEQm x RESm x mc{2,3} x DAG; ties<=1",
    "N<=3 as quick with unbounded ties; N=4: SEQ* x RESm x mc{1,2,3} x prio{0,desc} x both flavours; N=5: SEQm x {t*, ta*} x mc{2,3}; ties unbounded N<=4, <=2 N=5")

reg("C02",
    "all labelled DAG shapes x assignment of a dependency form to every edge (positional, keyword, indexed positional, indexed keyword, "
    "activation flag, indexed activation flag; flag truthy and falsy) x resources x sequential x priorities x max_concurrency x flavour; "
    "EVERY completion order and tie-break. non-trivial = (case, schedule) in which a node with a participating dependency was entered",
    "N<=3: all kind assignments x RESm x SEQ{none,first} x prio{0,desc} x mc{1,2,3} x both flavours; N=4: rotating kinds x 4 resource patterns x mc{2,3}; ties<=1",
    "N<=3 with SEQm and unbounded ties; N=4: 3 rotations x RESm x SEQm x 3 priority vectors x mc{1,2,3} x both flavours; N=5: rotating kinds, 2 resource patterns, mc{2,3}, ties<=1")
reg("C04",
    "all labelled DAG shapes x ALL 3^N resource assignments x max_concurrency 1..3 x sequential menu x flavour; EVERY completion order; "
    "plus the build-time validation of max_concurrency. non-trivial = (case, schedule) with more pooled nodes than max_concurrency, or mixing main-thread and pooled nodes",
    "N<=3: RES* x mc{1,2,3} x SEQm x both flavours, ties<=1; N=4: shapes with <=3 edges x RES* x mc{1,2,3}, DAG flavour, ties 0",
    "N<=3 unbounded ties; N=4: all shapes x RES* x mc x SEQm x both flavours, ties<=2; N=5: shapes with <=2 edges x 5 resource patterns x mc{2,3}")
reg("C08",
    "C05's space (all sequential subsets, all resources) and a priority slice; EVERY completion order; at every blocking wait of every schedule the "
    "idle predicate (max_concurrency in flight, or nothing ready, or a sequential node running / best candidate) is evaluated with the reference Ready set; "
    "an ALL_COMPLETED wait is re-evaluated after each single completion. non-trivial = (case, schedule) with a blocking wait entered below max_concurrency",
    "N<=3: SEQ* x RES* x mc{1,2,3} x prio{0,desc} x both flavours, ties<=1; N=4: 3 sequential patterns x 4 resource patterns x mc{2,3} x prio{0,desc}, ties 0",
    "N<=3 unbounded ties; N=4: SEQ* x RESm x mc{2,3} x PRIOm x both flavours, ties<=2; N=5: shapes <=4 edges x {t*,a*} x mc{2,3}",
    ["known finding (known_findings.json): with thread and async-thread nodes both in flight the scheduler waits for one completion of each kind"])

reg("C03",
    "five families, each with EVERY completion order: (A) all shapes x every dependency form per edge (flags truthy and falsy) x resources x mc x flavour; "
    "(B) all shapes x single target / root / exclude selections; (C) one decorated function on 2-3 call sites; (D) every valid placement of debug nodes with RUN_DEBUG_NODES off and on; "
    "(E) every valid placement of setup nodes after 0, 1, 2 earlier calls on the same instance. Oracle: entries per call site = 1 for the reference set, 0 for every other node. "
    "non-trivial = (case, schedule) where at least one node must run and at least one must not (or a function is reused)",
    "A: N<=3; B: N<=4; C: N<=3; D: N<=4 (N=4: <=3 edges); E: N<=3; ties<=1",
    "same families, unbounded ties for N<=3, two kind rotations in B")
reg("C06",
    "all labelled shapes x ALL priority vectors over {-1,0,2} x sequential menu x {all thread, all main-thread, alternating thread/async-thread} x max_concurrency x "
    "{whole DAG, each single target, each single root, each single exclude}; EVERY completion order and tie-break; at every dispatch the started node is compared with the "
    "reference Ready set under the reference compound priority (own + distinct descendants in the FULL DAG). non-trivial = (case, schedule) with a dispatch taken while two ready nodes had different reference compound priorities",
    "N<=3: PRIO* x SEQ{none,first} x 3 resource patterns x mc{1,2,3} x SELm (selections with mc<=2), ties<=1; N=4: PRIOm x 2 resource patterns x mc{1,2} x {whole,targets,roots}, ties 0",
    "N<=3: PRIO* x SEQm x mc{1,2,3} x SELm, unbounded ties; N=4: PRIO* x 3 sequential patterns x 3 resource patterns x mc{1,2,3} x SELm, ties<=1")
reg("C14",
    "all labelled shapes x every choice of 1 or 2 failing nodes x ALL resources of the failing nodes (menu on the rest) x max_concurrency x flavour x exception type x call location known / unknown; "
    "EVERY completion order, tie-break and iteration order of a done batch that contains a failure. Oracle: exception shape (type, node id, file:line, __cause__), no dependent of a failed node entered, "
    "no dispatch and no entry after the failure became observable, no internal error. non-trivial = (case, schedule) in which a sibling was in flight or ready when the failure was observed",
    "N<=3 all shapes, N=4 shapes with <=3 edges and single failures; ties<=1; done-batch orders all",
    "N<=4 all shapes, 1-2 failing nodes, both flavours; unbounded ties for N<=3")

reg("C09",
    "all shapes x ALL resource assignments x sequential menu x max_concurrency (incl. 1 with sequential nodes) x 0-2 failing nodes x activation-flag chains (all flags falsy) x flavour, "
    "plus executor calls with single selections and setup() calls; EVERY completion order. Oracle: the call returns or raises; the scheduler loop never iterates "
    "more than 64 times without an event (spin), never blocks with nothing to wait for (watchdog), never returns while a selected active node has not run, never raises without a node failure; "
    "build-time: every directed graph with a cycle is refused. non-trivial = schedule with >=2 nodes in flight, a failure next to other nodes, or a deactivation",
    "N<=3: RES* x SEQm x mc{1,2,3} x fail{none,1,2}; N=4: shapes <=4 edges x 5 resource patterns x mc{1,2} x fail{none,1}; digraphs on <=3 nodes; ties<=1",
    "N<=3 unbounded ties; N=4 all shapes, fail{none,1,2}; digraphs on <=4 nodes")

reg("C07",
    "all labelled shapes N<=5 x priority vectors (ALL vectors over {-1,0,2} for N<=4; one-hot and menu vectors for N=5) x ways of obtaining the graph {dag.graph_ids, executor().graph, "
    "executor with each single target / root / exclude, deepcopy, after config_from_dict} x EVERY iteration order of the sets built inside tawazi._dag.digraph while the DAG is constructed "
    "(owned `set`) x 4 real PYTHONHASHSEEDs (every case is evaluated in 4 worker processes with different hash seeds). Oracle: table = own + sum over distinct descendants; with max_concurrency=1 and no "
    "ties the entry order equals the reference greedy order (whole DAG, single-target and single-root executors, after reconfiguration). non-trivial = case with a descendant reachable by two paths, or with a unique mc=1 order of >=2 nodes",
    "N<=4 all shapes x PRIO*; N=5 shapes with 4..6 edges x 6 vectors; 4 hash seeds",
    "N<=4 as quick; N=5 all 1024 shapes x 13 vectors; 4 hash seeds")
INFO["C07"]["hash_seeds"] = 4
for _c in ("C04", "C05", "C08"):
    INFO[_c]["cfg_variants"] = True

reg("C12",
    "all labelled shapes x program variants {plain, a node whose only input is a constant, setup nodes fresh / pre-computed} x alias forms {id, node reference, unique tag, tag shared by two nodes, "
    "tag equal to another node's id} x EVERY triple (R, X, T), each component None or a subset (X restricted to the part selected by R, as the quantifier says), plus unknown aliases. "
    "Oracle: reference closure in plain set algebra vs set(executor.graph.nodes), entry counters and the returned tuple; ValueError with zero entries exactly where the reference demands it. "
    "states = selections evaluated. non-trivial = a selection with >= 2 components given that is run or refused",
    "N<=3 all subsets; N=4 components of size <=2, id aliases",
    "N<=4 all subsets and all alias forms; N=5 shapes <=5 edges, components of size <=1")

reg("C13",
    "all labelled shapes x EVERY placement of debug flags (valid ones are executed, invalid ones must be refused by the builder) x RUN_DEBUG_NODES off / on x whole-DAG call and EVERY selection (R, X, T) with "
    "bounded component size, including selections that name debug nodes; setup() on DAGs whose setup nodes have debug nodes downstream. Oracle: flag off -> no debug node entered in any mode; flag on + whole call -> each once; "
    "flag on + selection -> non-debug nodes exactly the reference closure, every pulled-in debug node received real values; returned values of non-debug nodes as the reference. "
    "non-trivial = an executed selection on a DAG that has debug nodes, or a placement the builder must refuse",
    "N<=3: components <=2; N=4: components <=1",
    "N<=4: components <=2")

PROG_ASSUME = ["the reference interpreter of twzmc/ir.py (sequential evaluation with plain callables, `f(...) if flag else None`, nested DAG = plain call) is the meaning of 'the plain Python function'",
               "function library is pure and tiny (k0, inc, add(x, y=10), pair, mkd, ident); values are small ints, tuples, dicts, bools, None"]
reg("C01",
    "EVERY describing function with <= 2 statements (and every 3-statement chain) over the statement alphabet {no-arg call, 1-arg call, 2-arg positional, keyword argument, node-function default, unpack_to=2, "
    "indexed tuple / dict / nested index, binary operators var.var / var.const / const.var, unary minus, and_/or_/not_, reused functions, flagged call with constant / parameter / whole-result flag, nested DAG calls} "
    "x argument slots over {parameters, a constant, projections of the two most recent variables} x return shapes {single, tuple, list, dict, with constants, an input returned directly, None, constant} "
    "x DAG parameters {(x), (x, y=4)} x inputs x in {0, 3, -2}, y in {omitted, 7} x configurations {mc=1, mc=3, all sequential via config_from_dict, reversed priorities via config_from_yaml, ascending priorities via config_from_json, "
    "resources rotated main/async-thread/thread per call site} x {DAG, AsyncDAG}; programs with <= 3 library calls additionally under EVERY completion order. Oracle: reference interpreter (value type-exact, same library calls with same arguments, "
    "same exception class). non-trivial = distinct (set of statement kinds, return shape) combinations with >= 2 statements",
    "2 statements: ops {+,<,==,&}, return shape and 2 of 6 configurations by rotation; 3-statement chains over (x) with op {+}, 1 configuration by rotation; ties<=1",
    "2 statements: 8 operators x all 9 return shapes x 6 configurations x 2 flavours; 3-statement chains with nested DAGs and both parameter lists, 3 configurations (time-capped, simplest first)",
    PROG_ASSUME)

reg("C20",
    "nesting structures: (A) one nested call: inner signatures {(a), (a, b=5), (a=1, b=5)} x EVERY call form (first argument a parameter / constant / result / indexed result; second omitted / explicit value equal to the default / different / parameter / result; "
    "no argument at all) x inner return shapes {single, tuple with an input returned directly, list, dict, tuple with a constant, dict with a constant, an input only} x outer uses {returned, passed to a node, passed to another nested DAG, used as activation flag, operator, indexed, unpacked}; "
    "(B) depth 2 and depth 3 nestings of the same; (C) the same inner DAG called twice in one outer DAG with the first result feeding the second call. x inputs {0, 3, -2} x {mc=1, mc=3} x {DAG, AsyncDAG}. "
    "Oracle: reference interpreter (nested DAG = plain function call), same library calls with the same arguments. non-trivial = distinct (family, signature, return shape, use, call form)",
    "all of A, B (every second call form), C", "all of A, B, C", PROG_ASSUME)

reg("C10",
    "flag forms {constants True/False/0/1/''/'a'/[]/[0]/None, DAG parameter, whole result, result[key], result[key][i], tuple element, unpacked element, comparison, and_, not_, result of a deactivated node} x "
    "carriers {plain node, node with keyword argument, reused function, node with dependents two deep, flag chain, nested DAG returning a tuple (unpacked) / used whole / single value, nested DAG with an inner setup node, "
    "nested DAG that already has a flagged node (must raise the documented RuntimeError), nested DAG two levels deep} x inputs making every form truthy and falsy x {mc=1, mc=3 with EVERY completion order} x {DAG, AsyncDAG}. "
    "Oracle: reference interpreter `f(...) if flag else None` (nested DAG: no non-setup inner call, all outputs None), identical library calls. non-trivial = distinct (flag form, carrier) pairs",
    "all forms x all carriers", "same (the space is small and fully enumerated in both tiers)", PROG_ASSUME)

HIST_ASSUME = ["operations of one history run one after the other on the default schedule (scheduling is quantified by the SCHED checks)",
               "a state is the history that reaches it: every history is replayed from a freshly built DAG, no state merging"]
reg("C11",
    "ALL operation histories up to the depth bound over the menu {call(a), call(b), executor()(a), executor(target)(a) for 2 targets, executor(exclude)(a), setup(), setup(target) for 2 targets, deepcopy -> continue on the copy} "
    "on 4 setup topologies {one setup node; two independent; chained; chained + independent feeding different consumers} x {DAG, AsyncDAG}, each followed by a probe call on the instance (and on the original of a copy). "
    "Oracle after every operation: setup nodes that ran = (reference closure of the selection, setup nodes only) minus those already done on this instance; every consumer received the token produced by the FIRST run; "
    "entry counts exact. Build-time clause: every shape N<=3 x setup placement x nodes taking the DAG argument x dependency forms is refused iff a setup node depends on a non-setup node or a DAG argument. "
    "states = operations executed. non-trivial = histories using >= 2 different operations",
    "depth <= 3", "depth <= 4", HIST_ASSUME)

reg("C15",
    "ALL operation histories up to the depth bound over the menu {call(a1,a2), call(a5) (default for the 2nd parameter), call(a1,BAD) (a middle node raises), call() (missing argument), e=executor(), e=executor(target), e(a1,a2), e(a1,BAD), "
    "compose(...)+call of the composed DAG, config_from_dict (same / changed priorities), deepcopy -> continue on the copy} on 3 DAGs {linear with a defaulted parameter; diamond with a constant, a keyword edge and a parameter flag; "
    "one with a setup node and an indexed use} x {DAG, AsyncDAG}, each followed by the probes call(p3), executor()(p3,p4) (and a probe of the original of a copy). Oracle: every operation and every probe is checked against the reference "
    "for ITS OWN arguments (entered nodes, received arguments, returned tokens); dag.results may only gain setup results; an executed executor refuses to run again; an executor whose run failed either refuses or runs its complete selection. "
    "states = operations executed. non-trivial = histories with >= 1 operation before the probe",
    "depth <= 3 (all; depth 3 in the DAG flavour only)", "depth <= 3 (all, both flavours), depth 4 restricted to histories containing a failing operation and an executor run / compose / copy", HIST_ASSUME)

reg("C18",
    "all labelled shapes x {no DAG argument, roots take a DAG argument} x caching run {whole DAG, each single target, cache_deps_of=[n] for each n} x restart run {same selection, whole DAG, cache_deps_of=[n] for each n (thorough: each single target)} "
    "x restart input {same, different}; the restart happens on a freshly built instance of the same DAG (nothing but the file is carried over). Oracle: the pickle holds the token of every node the caching run executed "
    "(minus n for cache_deps_of=[n]); during the restart no node whose result is in the file is entered, every other selected node is entered exactly once and receives the cached tokens, the returned tuple carries the cached tokens; "
    "cache_deps_of round trip enters exactly n. states = runs. non-trivial = pairs whose restart selection contains a cached node",
    "N<=3 all shapes, N=4 shapes with <=3 edges", "N<=4 all shapes, restart also by single target", HIST_ASSUME)

reg("C19",
    "all labelled shapes (roots take the DAG argument x; dependency forms by rotation incl. indexed and activation-flag edges; optionally a defaulted DAG argument) x EVERY pair (inputs subset of nodes + x, outputs subset of nodes), "
    "inputs=Ellipsis, single alias vs list, alias forms {id, node reference, tag}, an ambiguous tag, is_async in {None, True, False}, input values = distinguishable tokens (truthy and falsy for flag uses). "
    "Oracle: reference needs-closure (outputs and their ancestors, stopping at inputs) -> ValueError iff a DAG argument without default is needed and not supplied, or an input is an ancestor of another input, or an alias is ambiguous; "
    "otherwise the composed DAG enters exactly the needed nodes once, each with the substituted arguments, and returns the outputs' tokens; the original DAG is validated before and after. inputs/outputs overlap is accepted either way. "
    "states = (inputs, outputs) pairs evaluated. non-trivial = pairs with non-empty inputs and outputs that run, or pairs that must be refused",
    "N<=3 all shapes (2 rotations), N=4 shapes with <=3 edges", "N<=4 all shapes", HIST_ASSUME)

reg("C16",
    "scenarios of 2-3 OS threads x 1-2 operations each over {call the shared DAG with own argument, build a DAG, build with a pause inside the describing function, build a DAG nesting the shared DAG, build a second DAG, "
    "bare call of a decorated function under TAWAZI_EXECNODE_OUTSIDE_DAG_BEHAVIOR = ignore / warning / error}; ALL interleavings at synchronisation points (operations of the cooperative lock that replaces the build lock, pauses, operation boundaries), "
    "and ALL interleavings at every source line of the tawazi package (sys.settrace) within the preemption bound (iterative context bounding). Oracle: every operation's outcome equals its outcome when run alone; every DAG built under "
    "concurrency has the node table (ids, argument references, flags, constants, edges) of the DAG built alone and returns the same value on a probe input; no thread is left blocked. "
    "states = distinct (points reached per thread, running thread) configurations at choice points. non-trivial = schedules with at least one real choice",
    "27 scenarios at synchronisation points with <= 2 preemptions (every switch away from a runnable thread counts); 12 of them at line points with <= 1 preemption "
    "(c16.QUICK_LINE); horizon 60000 scheduling points per execution",
    "27 scenarios at synchronisation points with <= 3 preemptions; all of them at line points with <= 2 preemptions (time-capped, simplest first)",
    ["most scenario DAGs use main-thread nodes only, so no thread exists that the baton scheduler does not own; in the pooled_call scenarios the worker threads of the library's own pools run pure node functions freely (they finish by themselves) while the two scheduler threads interleave under the baton",
     "every lock object found in a global of a tawazi module is replaced by a cooperative lock before a scenario runs (a real lock held across a baton hand-over would block the process)",
     "five scenarios (first_call||first_call, setup(pa)||setup(pb), call||setup(pb), slow_setup||debug_call, slow_setup||slow_setup) go beyond the letter of the quantifier, which speaks of calls AFTER the setup nodes have run and of the operations call / build / bare call: see DESIGN.md 9.3",
     "line granularity is the finest preemption grain CPython exposes to sys.settrace; library frames (networkx, asyncio, pydantic) are not preemptible"])

reg("C17",
    "(i) every 2-statement program of C01's alphabet (plus programs with setup nodes) built as DAG and as AsyncDAG: same returned value, same library calls with the same arguments, same setup results recorded in dag.results, both equal to the reference; "
    "(ii) k in {2,3} concurrent awaits of ONE AsyncDAG in one event loop with distinct arguments, all shapes N<=3 x every resource assignment containing an async-thread node x max_concurrency {1,2}: EVERY order in which a driver coroutine serves the parked executions "
    "and every subset of their pending async-thread nodes completing; each await must return the tokens of its own execution and every node must have received its own execution's argument and tokens; "
    "(iii) liveness: a ticker coroutine in the same loop must make progress between entry and exit of every async-thread node. non-trivial = gathered schedules with >= 1 real choice; distinct 2-statement programs",
    "(i) ops {+,<}, one of 3 configurations by rotation; (ii) N<=2 with k in {2,3}, N=3 with k=2; schedules per case capped at 3000 (cap hits reported)",
    "(i) ops {+,<,==,&}; (ii) N<=3, k in {2,3} for N<=2", PROG_ASSUME)

# ---- families added after the seeded-change waves (DESIGN 10): appended to the rules so that the evidence describes them
CROSS_TEXT = (" In addition every SCHED check runs the shared cross-feature families (twzmc/spaces.py cross_families): constant activation flags x sequential x resources; "
              "early completions (a pooled node may finish at any scheduler step) next to inline main-thread nodes; max_concurrency reconfigured after the build; "
              "is_sequential / priority set through config_from_dict (by id, by a tag shared by several nodes, partially, before and after a first call); "
              "debug nodes with priorities under sub-graph selections with RUN_DEBUG_NODES on; several flags on parts of one result with every subset falsy. "
              "thorough additionally runs the quick families of all other SCHED checks under this check's monitor.")
for _c in ("C02", "C03", "C04", "C05", "C06", "C08", "C09", "C14"):
    INFO[_c]["rule"] += CROSS_TEXT
INFO["C02"]["rule"] += " Plus: constant-flag family (a deactivated node next to pending predecessors of its children); nested repeated-call programs (C20 families R, C) under every schedule against the reference interpreter."
INFO["C03"]["rule"] += " Plus: empty selections; an executor constructed before dag.setup() and run afterwards; N=4 rotating dependency forms with every subset of flags falsy."
INFO["C04"]["rule"] += " Plus: the loop's default executor is owned by the controller (nodes sent there are counted)."
INFO["C05"]["rule"] += " Plus: an early-completion slice (N<=4) for code that polls future.done()."
INFO["C07"]["rule"] += " Plus: debug nodes with priorities re-added to sub-graphs (RUN_DEBUG_NODES on); compose() as a way of obtaining the graph; reconfiguration to exactly 0."
INFO["C09"]["rule"] += " Plus: a node function that runs another DAG at run time (every resource of caller and inner node); watchdog around executor construction."
INFO["C10"]["rule"] += " Plus: two nodes guarded by different parts of one result; flags inside nested DAGs (indexed / unpacked, one and two levels); three-level pass-through of parameters fed by a setup result / constant."
INFO["C11"]["rule"] += " Menu as built: + construct-executor / run-stored-executor, setup(target deep below the setup nodes), setup(target_nodes=[]); topologies + a None-returning setup node and a chain of non-setup nodes below a setup node."
INFO["C12"]["rule"] += " Plus: indexed dependency forms under selection; aliases that are proper substrings of another node's tag; one instance kept over the whole sequence of selections when setup nodes exist."
INFO["C13"]["rule"] += " Plus: the build clause over every dependency form (positional, keyword, indexed, flag) and through nested DAG calls (argument, second argument, index, flag, two levels)."
INFO["C14"]["rule"] += " Plus: early-completion slice; failures next to sequential candidates with priorities; failures with TAWAZI_PROFILE_ALL_NODES on."
INFO["C15"]["rule"] += " Menu as built: + setup(), setup(target=last); compose over a node input for the keyword-wired DAG; build clause: a setup node fed by a DAG argument in any form is refused."
INFO["C16"]["rule"] += " Scenarios as built: + {failed build; call; bare call || build with pause}, {failed build; build || build with pause; call}; all scenario threads carry the same thread name."
INFO["C17"]["rule"] += " Plus: concurrent FIRST awaits of a DAG whose setup nodes have not run; one await failing next to running siblings (a forced completion = loop thread blocked); N=4 async-thread shapes under every completion order."
INFO["C18"]["rule"] += " Plus: from_cache + cache_in chains (third run from the second file); cache_deps_of naming two nodes; debug nodes downstream with RUN_DEBUG_NODES on; a node whose legal result is None; one instance and one path rewritten and re-read."
INFO["C19"]["rule"] += " Plus: inputs in every order; aliases that are substrings of other tags; None-valued constants / defaults / setup results."
INFO["C20"]["rule"] += " Plus: inner nodes exchanging indexed values by keyword; the same inner DAG (module-level and defined inside a factory function) called 4 times with constants and results overriding defaults; inline - reconfigure - inline again."
INFO["C01"]["rule"] += " Plus: 5-6 statement 'wide' programs under every schedule; the nested repeated-call / whole-result programs of C20; nested DAG whose inner nodes exchange indexed values by keyword."

# families added after seed waves 4-6 (see DESIGN.md section 10)
_MORE = {
    "C01": "twin constants (1/True/1.0, 0/False/0.0, 2/2.0) as argument, keyword, flag, operand, return member; non-commutative operands with the constant on either side; every program with a defaulted parameter: executor run with explicit arguments, then a defaulted call on the same object; int keys and negative positions in index paths; two awaits of one AsyncDAG object in flight.",
    "C02": "parallel edges (one consumer uses a producer twice through different index paths / as argument and flag); tuple keys; defaulted DAG parameters incl. executor-then-call; ghost completions (a task over while its node runs) and stray completions are part of the controller; setup(root_nodes=[r]) on single-root DAGs made of setup nodes.",
    "C03": "selections by a tag equal to another node's id; pairs of targets / exclusions / roots named descendant-first; declaration-order metamorphic oracle for the debug nodes a sub-graph run pulls in; nested programs with setup nodes judged per DAG object.",
    "C04": "configuration variants (library imported under other defaults); call-form declarations xn(f, **options); AsyncDAG awaited next to a sibling task; starvation monitor on both kinds of wait with a small default executor.",
    "C05": "configuration variants; call-form declarations; constant-True / constant-False flags x exactly one (other) sequential node; composed-DAG family.",
    "C06": "composed DAGs with names against dependency order (N<=5); call-form declarations; debug priorities under selections.",
    "C08": "configuration variants; completion orders inside ALL_COMPLETED waits; dispatched-but-not-running monitor (undersized / escaped pools).",
    "C09": "run-time nesting x pending setup nodes; run-time recursion (a node calls its own DAG) depth 1..3; starvation at thread- and asyncio-future waits.",
    "C10": "stateful constants and mutable arguments switched before / DURING the run; flags on inputs of composed DAGs (3 inputs, 2 orders, 16 truthiness combinations); setup nodes with their own flag inside inner DAGs; constants in the return of a deactivated inner DAG (known finding).",
    "C11": "executor(T).setup(); selections by overlapping string tags; build clause across nested DAG boundaries (6 refused + 2 accepted shapes).",
    "C12": "every multi-alias selection with the alias lists in both orders.",
    "C13": "cache_deps_of executors for every node under every debug placement; flags of inner DAGs called without positional arguments; debug nodes with setup parents that have not run.",
    "C14": "failing methods / operator nodes / partials / lambdas (call location); exception objects as return values under every resource; the program's own error ending the call before a node failure is observed is accepted; a node raising with an explicit cause of its own; a failing await next to a sibling await; a failing node after a reconfiguration.",
    "C15": "executor creation / compose failing inside a history are violations (not harness errors); an executor with target AND exclusion that is only created; the priority rule after reconfigurations; two / three overlapping awaits of one AsyncDAG object (A || (B ; C)).",
    "C16": "decorated methods across threads; rendezvous of two calls; first calls of a DAG with pending setup nodes from two threads; two pooled calls; failing nested builds; every module-level lock of tawazi owned by the baton scheduler.",
    "C17": "histories of awaits on one AsyncDAG object (HIST oracle); driver serves only running nodes and reports starvation; internal errors of the async flavour; coroutines created up front; A || (B ; C) with pending setup nodes and a final probe await; cache file + pending setup node history compared between the flavours.",
    "C18": "keyword / indexed / flag dependencies in the round trips; defaulted argument not repeated at restart; executor constructed before the file is (re)written.",
    "C19": "tag equal to another node's id, ambiguous tag shadowing an id; chains of setup nodes composed after a call / after setup() / before anything ran; identity of carried setup results; a refused compose leaves the original untouched; nodes described with unpack_to / twz_unpack_to as outputs and inputs of the composed DAG.",
    "C20": "factory-made DAG objects sharing a qualname; thirteen calls of one inner DAG; stateful node functions (flat vs nested differential); defaulted parameters forwarded to inner DAGs; pass-through parameters; nested composed DAGs.",
}
for _c, _t in _MORE.items():
    INFO[_c]["rule"] += " Added after seed waves 4-6: " + _t
