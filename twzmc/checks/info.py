"""Static description of every check: enumeration rule, bounds per tier, assumptions (for the evidence files)."""

COMMON_ASSUME = [
    "CPython, concurrent.futures, asyncio and networkx behave as documented",
    "the seams of twzmc/harness.py (hooked wait / asyncio.wait / ThreadPoolExecutor / max / ensure_future) are faithful: each delegates to the real primitive after deciding WHEN a pooled node completes",
    "a controlled execution completes a pooled node exactly when the scheduler observes it (latest possible moment): every controlled run is a feasible real run and every real run is observationally equal to one",
    "node bodies are harness functions returning value tokens; data values outside that alphabet are not covered",
]

INFO = {}


def reg(cid, rule, quick, thorough, assumptions=()):
    INFO[cid] = {"rule": rule, "bounds": {"quick": quick, "thorough": thorough}, "assumptions": COMMON_ASSUME + list(assumptions)}


reg("C05",
    "all labelled DAG shapes x subsets of sequential nodes x resource assignments x max_concurrency x priorities x flavour; for each, "
    "EVERY completion order of the nodes in flight and every tie-break (stateless DFS over the real scheduler). non-trivial = "
    "(case, schedule) in which a sequential node ran while a node that is neither its ancestor nor its descendant took part",
    "N<=3: SEQ* x RES* x mc{1,2,3} x prio{0,desc} x {DAG,AsyncDAG}; N=4: SEQm x RESm x mc{2,3} x DAG; ties<=1",
    "N<=3 as quick with unbounded ties; N=4: SEQ* x RESm x mc{1,2,3} x prio{0,desc} x both flavours; N=5: SEQm x {t*, ta*} x mc{2,3}; ties unbounded N<=4, <=2 N=5")

reg("C02",
    "all labelled DAG shapes x assignment of a dependency form to every edge (positional, keyword, indexed positional, indexed keyword, "
    "activation flag, indexed activation flag; flag truthy and falsy) x resources x sequential x priorities x max_concurrency x flavour; "
    "EVERY completion order and tie-break. non-trivial = (case, schedule) in which a node with a participating dependency was entered",
    "N<=3: all kind assignments x RESm x SEQ{none,first} x prio{0,desc} x mc{1,2,3} x both flavours; N=4: rotating kinds x 4 resource patterns x mc{2,3}; ties<=1",
    "N<=3 with SEQm and unbounded ties; N=4: 3 rotations x RESm x SEQm x 3 priority vectors x mc{1,2,3} x both flavours; N=5: rotating kinds, 2 resource patterns, mc{2,3}, ties<=1")
reg("C04",
    "all labelled DAG shapes x ALL 3^N resource assignments x max_concurrency 1..3 x sequential menu x flavour; EVERY completion order; "
    "plus the build-time validation of max_concurrency. non-trivial = (case, schedule) with more pooled nodes than max_concurrency, or mixing main-thread and pooled nodes",
    "N<=3: RES* x mc{1,2,3} x SEQm x both flavours, ties<=1; N=4: shapes with <=3 edges x RES* x mc{1,2,3}, DAG flavour, ties 0",
    "N<=3 unbounded ties; N=4: all shapes x RES* x mc x SEQm x both flavours, ties<=2; N=5: shapes with <=2 edges x 5 resource patterns x mc{2,3}")
reg("C08",
    "C05's space (all sequential subsets, all resources) and a priority slice; EVERY completion order; at every blocking wait of every schedule the "
    "idle predicate (max_concurrency in flight, or nothing ready, or a sequential node running / best candidate) is evaluated with the reference Ready set; "
    "an ALL_COMPLETED wait is re-evaluated after each single completion. non-trivial = (case, schedule) with a blocking wait entered below max_concurrency",
    "N<=3: SEQ* x RES* x mc{1,2,3} x prio{0,desc} x both flavours, ties<=1; N=4: 3 sequential patterns x 4 resource patterns x mc{2,3} x prio{0,desc}, ties 0",
    "N<=3 unbounded ties; N=4: SEQ* x RESm x mc{2,3} x PRIOm x both flavours, ties<=2; N=5: shapes <=4 edges x {t*,a*} x mc{2,3}",
    ["known finding (known_findings.json): with thread and async-thread nodes both in flight the scheduler waits for one completion of each kind"])

reg("C03",
    "five families, each with EVERY completion order: (A) all shapes x every dependency form per edge (flags truthy and falsy) x resources x mc x flavour; "
    "(B) all shapes x single target / root / exclude selections; (C) one decorated function on 2-3 call sites; (D) every valid placement of debug nodes with RUN_DEBUG_NODES off and on; "
    "(E) every valid placement of setup nodes after 0, 1, 2 earlier calls on the same instance. Oracle: entries per call site = 1 for the reference set, 0 for every other node. "
    "non-trivial = (case, schedule) where at least one node must run and at least one must not (or a function is reused)",
    "A: N<=3; B: N<=4; C: N<=3; D: N<=4 (N=4: <=3 edges); E: N<=3; ties<=1",
    "same families, unbounded ties for N<=3, two kind rotations in B")
reg("C06",
    "all labelled shapes x ALL priority vectors over {-1,0,2} x sequential menu x {all thread, all main-thread, alternating thread/async-thread} x max_concurrency x "
    "{whole DAG, each single target, each single root, each single exclude}; EVERY completion order and tie-break; at every dispatch the started node is compared with the "
    "reference Ready set under the reference compound priority (own + distinct descendants in the FULL DAG). non-trivial = (case, schedule) with a dispatch taken while two ready nodes had different reference compound priorities",
    "N<=3: PRIO* x SEQ{none,first} x 3 resource patterns x mc{1,2,3} x SELm (selections with mc<=2), ties<=1; N=4: PRIOm x 2 resource patterns x mc{1,2} x {whole,targets,roots}, ties 0",
    "N<=3: PRIO* x SEQm x mc{1,2,3} x SELm, unbounded ties; N=4: PRIO* x 3 sequential patterns x 3 resource patterns x mc{1,2,3} x SELm, ties<=1")
reg("C14",
    "all labelled shapes x every choice of 1 or 2 failing nodes x ALL resources of the failing nodes (menu on the rest) x max_concurrency x flavour x exception type x call location known / unknown; "
    "EVERY completion order, tie-break and iteration order of a done batch that contains a failure. Oracle: exception shape (type, node id, file:line, __cause__), no dependent of a failed node entered, "
    "no dispatch and no entry after the failure became observable, no internal error. non-trivial = (case, schedule) in which a sibling was in flight or ready when the failure was observed",
    "N<=3 all shapes, N=4 shapes with <=3 edges and single failures; ties<=1; done-batch orders all",
    "N<=4 all shapes, 1-2 failing nodes, both flavours; unbounded ties for N<=3")

reg("C09",
    "all shapes x ALL resource assignments x sequential menu x max_concurrency (incl. 1 with sequential nodes) x 0-2 failing nodes x activation-flag chains (all flags falsy) x flavour, "
    "plus executor calls with single selections and setup() calls; EVERY completion order. Oracle: the call returns or raises; the scheduler loop never iterates "
    "more than 64 times without an event (spin), never blocks with nothing to wait for (watchdog), never returns while a selected active node has not run, never raises without a node failure; "
    "build-time: every directed graph with a cycle is refused. non-trivial = schedule with >=2 nodes in flight, a failure next to other nodes, or a deactivation",
    "N<=3: RES* x SEQm x mc{1,2,3} x fail{none,1,2}; N=4: shapes <=4 edges x 5 resource patterns x mc{1,2} x fail{none,1}; digraphs on <=3 nodes; ties<=1",
    "N<=3 unbounded ties; N=4 all shapes, fail{none,1,2}; digraphs on <=4 nodes")

reg("C07",
    "all labelled shapes N<=5 x priority vectors (ALL vectors over {-1,0,2} for N<=4; one-hot and menu vectors for N=5) x ways of obtaining the graph {dag.graph_ids, executor().graph, "
    "executor with each single target / root / exclude, deepcopy, after config_from_dict} x EVERY iteration order of the sets built inside tawazi._dag.digraph while the DAG is constructed "
    "(owned `set`) x 4 real PYTHONHASHSEEDs (every case is evaluated in 4 worker processes with different hash seeds). Oracle: table = own + sum over distinct descendants; with max_concurrency=1 and no "
    "ties the entry order equals the reference greedy order (whole DAG, single-target and single-root executors, after reconfiguration). non-trivial = case with a descendant reachable by two paths, or with a unique mc=1 order of >=2 nodes",
    "N<=4 all shapes x PRIO*; N=5 shapes with 4..6 edges x 6 vectors; 4 hash seeds",
    "N<=4 as quick; N=5 all 1024 shapes x 13 vectors; 4 hash seeds")
INFO["C07"]["hash_seeds"] = 4

reg("C12",
    "all labelled shapes x program variants {plain, a node whose only input is a constant, setup nodes fresh / pre-computed} x alias forms {id, node reference, unique tag, tag shared by two nodes, "
    "tag equal to another node's id} x EVERY triple (R, X, T), each component None or a subset (X restricted to the part selected by R, as the quantifier says), plus unknown aliases. "
    "Oracle: reference closure in plain set algebra vs set(executor.graph.nodes), entry counters and the returned tuple; ValueError with zero entries exactly where the reference demands it. "
    "states = selections evaluated. non-trivial = a selection with >= 2 components given that is run or refused",
    "N<=3 all subsets; N=4 components of size <=2, id aliases",
    "N<=4 all subsets and all alias forms; N=5 shapes <=5 edges, components of size <=1")

reg("C13",
    "all labelled shapes x EVERY placement of debug flags (valid ones are executed, invalid ones must be refused by the builder) x RUN_DEBUG_NODES off / on x whole-DAG call and EVERY selection (R, X, T) with "
    "bounded component size, including selections that name debug nodes; setup() on DAGs whose setup nodes have debug nodes downstream. Oracle: flag off -> no debug node entered in any mode; flag on + whole call -> each once; "
    "flag on + selection -> non-debug nodes exactly the reference closure, every pulled-in debug node received real values; returned values of non-debug nodes as the reference. "
    "non-trivial = an executed selection on a DAG that has debug nodes, or a placement the builder must refuse",
    "N<=3: components <=2; N=4: components <=1",
    "N<=4: components <=2")
