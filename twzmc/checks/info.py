"""Static description of every check: enumeration rule, bounds per tier, assumptions (for the evidence files)."""

COMMON_ASSUME = [
    "CPython, concurrent.futures, asyncio and networkx behave as documented",
    "the seams of twzmc/harness.py (hooked wait / asyncio.wait / ThreadPoolExecutor / max / ensure_future) are faithful: each delegates to the real primitive after deciding WHEN a pooled node completes",
    "a controlled execution completes a pooled node exactly when the scheduler observes it (latest possible moment): every controlled run is a feasible real run and every real run is observationally equal to one",
    "node bodies are harness functions returning value tokens; data values outside that alphabet are not covered",
]

INFO = {}


def reg(cid, rule, quick, thorough, assumptions=()):
    INFO[cid] = {"rule": rule, "bounds": {"quick": quick, "thorough": thorough}, "assumptions": COMMON_ASSUME + list(assumptions)}


reg("C05",
    "all labelled DAG shapes x subsets of sequential nodes x resource assignments x max_concurrency x priorities x flavour; for each, "
    "EVERY completion order of the nodes in flight and every tie-break (stateless DFS over the real scheduler). non-trivial = "
    "(case, schedule) in which a sequential node ran while a node that is neither its ancestor nor its descendant took part",
    "N<=3: SEQ* x RES* x mc{1,2,3} x prio{0,desc} x {DAG,AsyncDAG}; N=4: SEQm x RESm x mc{2,3} x DAG; ties<=1",
    "N<=3 as quick with unbounded ties; N=4: SEQ* x RESm x mc{1,2,3} x prio{0,desc} x both flavours; N=5: SEQm x {t*, ta*} x mc{2,3}; ties unbounded N<=4, <=2 N=5")
