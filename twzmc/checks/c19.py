"""C19 - a composed DAG computes the outputs from the supplied intermediate values."""
from __future__ import annotations

import itertools
import warnings

from .. import harness as H
from ..build import build_gprog
from ..gprog import NODEFAULT, Edge, GNode, GProg, shapes
from ..harness import Tok
from ..hist import Instance, run_op
from ..monitors import V
from ..spaces import kinds_rotating, prog_of, shard_iter

ID = "C19"
BUDGET = {"quick": 240, "thorough": 600}
X = -1  # the DAG argument x as a vertex


def make_prog(n, es4, tags=None, ydefault=False) -> GProg:
    p = prog_of(dict(n=n, es=es4, res=("tam" * n)[:n], mc=2, tags=tags or {}))
    nodes = list(p.nodes)
    for i in range(n):
        if not nodes[i].edges:
            nodes[i] = GNode(**{**nodes[i].__dict__, "edges": (Edge(-1, "pos"),)})
    params = (("x", NODEFAULT),)
    if ydefault:
        # last node additionally takes a defaulted DAG argument
        nodes[-1] = GNode(**{**nodes[-1].__dict__, "edges": nodes[-1].edges + (Edge(-2, "kw"),)})
        params = (("x", NODEFAULT), ("y", 7))
    return GProg(nodes=tuple(nodes), mc=2, params=params)


def vertex_deps(p: GProg, j: int):
    return {e.src for e in p.nodes[j].edges}


def anc_vertices(p: GProg, j: int):
    seen, todo = set(), [j]
    while todo:
        v = todo.pop()
        if v < 0:
            continue
        for d in vertex_deps(p, v):
            if d not in seen:
                seen.add(d)
                todo.append(d)
    return seen


def reference(p: GProg, I: list, O: list):
    """-> ("error", why) | ("either", why) | ("ok", needs_nodes_to_run:set)"""
    Iset = set(I)
    for i in I:
        for i2 in I:
            if i2 != i and i2 >= 0 and i in anc_vertices(p, i2):
                return ("error", "input depends on input")
    if Iset & set(O):
        return ("either", "inputs and outputs overlap")
    needs = set()
    todo = list(O)
    while todo:
        v = todo.pop()
        if v in needs or v in Iset:
            continue
        needs.add(v)
        if v < 0:
            k = -1 - v
            if p.params[k][1] == NODEFAULT:
                return ("error", "missing DAG argument")
            continue
        todo.extend(vertex_deps(p, v))
    return ("ok", {v for v in needs if v >= 0})


def supplied(v: int):
    if v == -2:
        return "INy"
    return Tok(f"IN{v}" if v >= 0 else "INx", 0)


def expected_args(p: GProg, j: int, I: set, ran: set, serial: int):
    ids = p.ids()

    def val(e: Edge):
        if e.src in I:
            t = supplied(e.src)
            for key in e.path:
                t = t[key]
            return t
        if e.src < 0:
            return p.params[-1 - e.src][1]
        if e.src in ran:
            return Tok(ids[e.src], serial, tuple(e.path))
        return None

    n = p.nodes[j]
    a = tuple(val(e) for e in n.edges if e.kind == "pos") + tuple(n.consts)
    kw = {(f"k{e.src}" if e.src >= 0 else f"p{-1 - e.src}"): val(e) for e in n.edges if e.kind == "kw"}
    fl = [val(e) for e in n.edges if e.kind == "flag"]
    return a, kw, (bool(fl[0]) if fl else True)


def alias_of(p: GProg, d, v: int, form: str):
    ids = p.ids()
    if v < 0:
        return p.param_id(-1 - v)
    if form == "ref":
        return d.exec_nodes[ids[v]]
    if form == "tag":
        return f"t{v}"
    if form == "substr":
        return {0: "n0", 1: "xn0y", 2: "t0z"}.get(v, ids[v])
    if form == "tag_eq_id":
        # node 1 carries the tag "n0", which is also the id of node 0: a string is a tag first (documented), so "n0" names
        # node 1; node 0 itself can only be named by reference
        return {0: d.exec_nodes[ids[0]], 1: "n0"}.get(v, ids[v])
    return ids[v]


def cases(tier: str):
    q = tier == "quick"
    for n in ((1, 2, 3, 4) if q else (1, 2, 3, 4, 5)):
        for es in shapes(n):
            if n == 5 and len(es) > 4:
                continue
            for off in ((0, 4) if n <= 3 else (4,)):
                es4 = kinds_rotating(es, off)
                if off == 4 and not any(k == "flag" for (_, _, k, _) in es4) and n <= 3:
                    continue
                falsies = [[]] + ([[["IN", list(path)] for (i, j, k, path) in es4 if k == "flag"][:1]] if any(k == "flag" for (_, _, k, _) in es4) else [])
                for fz in range(len(falsies)):
                    for form in (("id", "ref", "tag", "substr") if n <= (2 if q else 3) else (("id", "substr") if n == 3 else ("id",))):
                        yield dict(n=n, es=es4, falsy_inputs=bool(fz), form=form, ydefault=(n >= 2 and off == 0), is_async=[None, True, False][(len(es) + n) % 3])
    yield dict(n=3, es=kinds_rotating([(0, 2), (1, 2)], 0), special="ambiguous_tag", form="id", ydefault=False, falsy_inputs=False, is_async=None)
    yield dict(n=3, es=kinds_rotating([(0, 2), (1, 2)], 0), special="ambiguous_tag_eq_id", form="id", ydefault=False, falsy_inputs=False, is_async=None)
    for n in (2, 3):
        for es in shapes(n):
            yield dict(n=n, es=kinds_rotating(es, 0), falsy_inputs=False, form="tag_eq_id", ydefault=False, is_async=None)
    yield dict(n=3, es=[], special="identity", form="id", ydefault=False, falsy_inputs=False, is_async=None)
    yield dict(n=3, es=[], special="setup_chain", form="id", ydefault=False, falsy_inputs=False, is_async=None)
    yield dict(n=3, es=[], special="unpacked", form="id", ydefault=False, falsy_inputs=False, is_async=None)
    yield dict(n=3, es=[], special="none_values", form="id", ydefault=False, falsy_inputs=False, is_async=None)
    yield dict(n=3, es=kinds_rotating([(0, 1), (1, 2)], 0), special="ellipsis", form="id", ydefault=True, falsy_inputs=False, is_async=None)


def check_original(acc, c, inst, label):
    run_op(acc, c, [label], inst, "call", None, ("ox",))


def run_none_values(acc, c):
    """None is a legal value: a constant None argument, a DAG parameter defaulting to None and a setup result that is None
    are carried into the composed DAG like any other value (nothing is re-executed, nothing goes missing)."""
    nodes = (GNode(setup=True, retnone=True, res="t"),
             GNode(edges=(Edge(0, "pos"), Edge(-1, "pos")), res="t"),
             GNode(edges=(Edge(1, "pos"), Edge(-2, "kw")), consts=(None,), res="m"))
    p = GProg(nodes=nodes, mc=2, params=(("x", NODEFAULT), ("y", None)))
    ids = p.ids()
    src = p.source()
    acc.cases += 1
    inst = Instance(p)
    check_original(acc, c, inst, "original before compose (runs the setup node)")
    for I, O, vals, want in (([1], [2], [supplied(1)], {"n2": ((supplied(1), None), {"p1": None})}),
                             ([X], [2], [supplied(X)], {"n1": ((None, supplied(X)), {}), "n2": (("TOK:n1", None), {"p1": None})}),
                             ([X, -2], [1, 2], [supplied(X), "Y"], {"n1": ((None, supplied(X)), {}), "n2": (("TOK:n1", None), {"p1": "Y"})})):
        acc.evaluations += 1
        case = dict(c, I=I, O=O)
        try:
            comp = inst.d.compose("comp", [alias_of(p, inst.d, v, "id") for v in I], [ids[o] for o in O])
        except Exception as e:  # noqa: BLE001
            acc.violation(V("compose_refused", f"compose(I={I}, O={O}) with None-valued constants / defaults / setup results raised {e!r}"), case, (), None, src)
            continue
        res = H.run_controlled(lambda: comp(*vals))
        if res.outcome != "return":
            acc.violation(V("composed_call_failed", f"compose(I={I}, O={O}) then call raised {res.exc!r} (None-valued constant / default / setup result)", exc=type(res.exc).__name__), case, (), res.trace, src)
            continue
        ent = {e[1]: e for e in res.trace if e[0] == "enter"}
        serial = next((e[2] for e in res.trace if e[0] == "enter"), 0)
        if set(ent) != set(want):
            acc.violation(V("composed_wrong_nodes", f"compose(I={I}, O={O}): entered {sorted(ent)}, expected exactly {sorted(want)} (the None-valued setup result is already computed)"), case, (), res.trace, src)
            continue
        for nid, (a, kw) in want.items():
            a = tuple(Tok(x[4:], serial) if isinstance(x, str) and x.startswith("TOK:") else x for x in a)
            e = ent[nid]
            if tuple(e[5]) != a or e[6] != kw:
                acc.violation(V("composed_wrong_arguments", f"compose(I={I}, O={O}): {nid} received {e[5]!r} {e[6]!r}, expected {a!r} {kw!r}"), case, (), res.trace, src)
        acc.mark_nontrivial(("none_values", repr(I), repr(O)))
    check_original(acc, c, inst, "original after composing")
    acc.states += 3
    acc.transitions += 3


def run_identity(acc, c):
    """setup results are TAKEN from the original (same object), never cloned: a handle that cannot be copied, a stateful object"""
    nodes = (GNode(setup=True, res="t"), GNode(edges=(Edge(0, "pos"), Edge(-1, "pos")), res="t"), GNode(edges=(Edge(1, "pos"), Edge(0, "kw")), res="m"))
    p = GProg(nodes=nodes, mc=2, params=(("x", NODEFAULT),))
    ids = p.ids()
    src = p.source()
    acc.cases += 1
    for ran_before in (True, False):
        d, ns = build_gprog(p)
        H.RET_OBJ.clear()
        H.RET_OBJ.add(ids[0])
        try:
            handle = None
            if ran_before:
                r0 = H.run_controlled(lambda: d("ox"))
                handle = r0.value[0] if r0.outcome == "return" else None
            acc.evaluations += 1
            case = dict(c, ran_before=ran_before)
            try:
                comp = d.compose("comp", [p.param_id(0)], [ids[2]])
            except Exception as e:  # noqa: BLE001
                acc.violation(V("compose_refused", f"compose() on a DAG whose setup result is a non-copyable handle (setup ran before: {ran_before}) raised {e!r}"), case, (), None, src)
                continue
            res = H.run_controlled(lambda: comp("cx"))
            if res.outcome != "return":
                acc.violation(V("composed_call_failed", f"composed DAG call raised {res.exc!r}", exc=type(res.exc).__name__), case, (), res.trace, src)
                continue
            ent = {e[1]: e for e in res.trace if e[0] == "enter"}
            if ran_before:
                got = ent.get(ids[1], [None] * 6)[5]
                if ids[0] in ent or not got or got[0] is not handle:
                    acc.violation(V("setup_result_not_shared", f"the composed DAG must use the original's setup result {handle!r} itself; n1 received {got!r}, entered {sorted(ent)}"),
                                  case, (), res.trace, src)
            acc.mark_nontrivial(("identity", ran_before))
        finally:
            H.RET_OBJ.clear()
    acc.states += 2
    acc.transitions += 2


def run_setup_chain(acc, c):
    """setup nodes that have dependencies of their own (constants, another setup node), already executed - or not - by the original
    when compose() is called: the composed DAG computes its outputs from the supplied value and the carried setup results"""
    nodes = (GNode(setup=True, res="t", consts=(7,)), GNode(edges=(Edge(0, "pos"),), setup=True, res="t", consts=("k",)),
             GNode(edges=(Edge(1, "pos"), Edge(-1, "pos")), res="t"), GNode(edges=(Edge(2, "pos"), Edge(1, "kw")), res="m"))
    p = GProg(nodes=nodes, mc=2, params=(("x", NODEFAULT),))
    ids = p.ids()
    src = p.source()
    acc.cases += 1
    for ran_before in ("call", "setup", "no"):
        for inputs, outputs, arg in (([p.param_id(0)], [ids[3]], "cx"), ([ids[2]], [ids[3]], "c2"), ([p.param_id(0)], [ids[2], ids[1]], "cx")):
            d, ns = build_gprog(p)
            setup_toks = None
            if ran_before == "call":
                r0 = H.run_controlled(lambda: d("ox"))
                setup_toks = r0.value[:2] if r0.outcome == "return" else None
            elif ran_before == "setup":
                r0 = H.run_controlled(lambda: d.setup())
                setup_toks = (d.results.get(ids[0]), d.results.get(ids[1]))
            acc.evaluations += 1
            case = dict(c, ran_before=ran_before, inputs=[str(x) for x in inputs], outputs=outputs)
            try:
                comp = d.compose("comp", inputs, outputs)
            except Exception as e:  # noqa: BLE001
                acc.violation(V("compose_refused", f"compose({inputs}, {outputs}) with a chain of setup nodes (setup ran before: {ran_before}) raised {e!r}"), case, (), None, src)
                continue
            res = H.run_controlled(lambda: comp(arg))
            if res.outcome != "return":
                acc.violation(V("composed_call_failed", f"compose({inputs}, {outputs}) after {ran_before}: composed DAG call raised {res.exc!r}", exc=type(res.exc).__name__),
                              case, (), res.trace, src)
                continue
            ent = {e[1]: e for e in res.trace if e[0] == "enter"}
            if setup_toks is not None:
                if ids[0] in ent or ids[1] in ent:
                    acc.violation(V("setup_rerun_in_composed", f"setup nodes already executed by the original were entered again: {sorted(ent)}"), case, (), res.trace, src)
                if ids[2] in ent and ent[ids[2]][5][0] != setup_toks[1]:
                    acc.violation(V("setup_result_not_shared", f"n2 received {ent[ids[2]][5]!r}, the original's setup result is {setup_toks[1]!r}"), case, (), res.trace, src)
            else:
                need = {ids[0], ids[1]}
                if not need <= set(ent):
                    acc.violation(V("composed_wrong_nodes", f"setup nodes never executed before must run in the composed DAG; entered {sorted(ent)}"), case, (), res.trace, src)
            if ids[3] in outputs and ids[3] not in ent:
                acc.violation(V("composed_wrong_nodes", f"output node n3 was not executed; entered {sorted(ent)}"), case, (), res.trace, src)
            acc.mark_nontrivial(("setup_chain", ran_before, repr(inputs), repr(outputs)))
    # a compose() that is REFUSED (a setup node would depend on an input of the composed DAG) leaves the original untouched: its first
    # call / setup() afterwards behaves as if nothing had been attempted
    from ..monitors import View, mon_c02, mon_c03
    for inputs in ([ids[0]], [ids[1]], [ids[0], p.param_id(0)]):
        for first in ("call", "setup_then_call"):
            d, ns = build_gprog(p)
            acc.evaluations += 1
            try:
                d.compose("bad", inputs, [ids[3]])
                refused = False
            except BaseException:  # noqa: BLE001
                refused = True
            if first == "setup_then_call":
                H.run_controlled(lambda: d.setup())
            res = H.run_controlled(lambda: d("ox"))
            case = dict(c, refused_compose_inputs=[str(x) for x in inputs], first=first, refused=refused)
            pre = None
            if first == "setup_then_call":
                pre = {0: res.value[0].serial, 1: res.value[1].serial} if res.outcome == "return" and all(hasattr(x, "serial") for x in res.value[:2]) else None
            if res.outcome != "return":
                acc.violation(V("original_broken_by_compose", f"compose({inputs}) was {'refused' if refused else 'accepted'}; the original's next call then gave {res.outcome} {res.exc!r}"),
                              case, (), res.trace, src)
                continue
            if first == "call":
                v = View(p, res, None, None, False, ("ox",))
                for m in (mon_c02, mon_c03):
                    for viol in m(v):
                        acc.violation(dict(viol, kind="original_broken_by_compose", msg=f"after a {'refused' if refused else 'successful'} compose({inputs}) the original's first call: " + viol["msg"]),
                                      case, (), res.trace, src)
            elif any(not hasattr(x, "serial") for x in res.value):
                acc.violation(V("original_broken_by_compose", f"after compose({inputs}) and setup() the original returns {res.value!r}"), case, (), res.trace, src)
            acc.mark_nontrivial(("refused_compose", repr(inputs), first, refused))
    acc.states += 9
    acc.transitions += 9


UNPACKED_SRC = '''
from tawazi import xn, dag

@xn(unpack_to=2)
def two(x):
    return [x, [x, x]]          # a LIST of two elements: the value of the node is this list

@xn
def three(x):
    return (x, x + 1, x + 2)    # unpacked to 2 at the call site: the value of the node keeps its three elements

@xn
def tail(a):
    return ("tail", a)

@dag
def d(x):
    a, b = two(x)
    p, q = three(x, twz_unpack_to=2)
    t = tail(a)
    u = tail(q)
    return t, u
'''
# (inputs, outputs, argument, expected value of the composed DAG)
UNPACKED = [
    ("d>!>x", "two", 3, [3, [3, 3]]),
    ("d>!>x", ["two", "tail"], 3, ([3, [3, 3]], ("tail", 3))),
    ("d>!>x", "three", 3, (3, 4, 5)),
    ("d>!>x", ["three", "tail<<1>>"], 3, ((3, 4, 5), ("tail", 4))),
    ("two", "tail", [9, 8], ("tail", 9)),
    ("three", "tail<<1>>", (1, 2, 3), ("tail", 2)),
]


def run_unpacked(acc, c):
    """nodes described with unpack_to / twz_unpack_to as OUTPUTS (and inputs) of a composed DAG: the composed DAG returns the node's
    value as the node produced it (a list stays a list, a longer tuple keeps all its elements)"""
    from ..build import exec_source
    acc.cases += 1
    for ins, outs, arg, want in UNPACKED:
        ns = exec_source(UNPACKED_SRC)
        d = ns["d"]
        acc.evaluations += 1
        case = dict(c, inputs=ins, outputs=outs)
        try:
            comp = d.compose("comp", ins, outs)
        except Exception as e:  # noqa: BLE001
            acc.violation(V("compose_refused", f"compose({ins!r}, {outs!r}) with unpacked nodes raised {e!r}"), case, (), None, UNPACKED_SRC)
            continue
        res = H.run_controlled(lambda: comp(arg))
        acc.mark_nontrivial(("unpacked", repr(ins), repr(outs)))
        if res.outcome != "return" or res.value != want or type(res.value) is not type(want):
            acc.violation(V("composed_wrong_value", f"compose({ins!r}, {outs!r})({arg!r}) gave {res.outcome} {res.value!r} {res.exc!r}, expected {want!r}"),
                          case, (), res.trace, UNPACKED_SRC)
        r0 = H.run_controlled(lambda: d(3))
        if r0.outcome != "return" or r0.value != (("tail", 3), ("tail", 4)):
            acc.violation(V("original_changed", f"the original after compose({ins!r}, {outs!r}) returns {r0.value!r} ({r0.outcome} {r0.exc!r})"), case, (), r0.trace, UNPACKED_SRC)
    acc.states += len(UNPACKED)
    acc.transitions += len(UNPACKED)


def run_one(acc, c):
    if c.get("special") == "unpacked":
        return run_unpacked(acc, c)
    if c.get("special") == "setup_chain":
        return run_setup_chain(acc, c)
    if c.get("special") == "identity":
        return run_identity(acc, c)
    if c.get("special") == "none_values":
        return run_none_values(acc, c)
    n = c["n"]
    tags = {i: f"t{i}" for i in range(n)} if c["form"] == "tag" else {}
    if c["form"] == "substr":
        tags = {0: "t0", 1: "xn0y", 2: "t0z"}
        tags = {k: v for k, v in tags.items() if k < n}
    if c["form"] == "tag_eq_id":
        tags = {1: "n0"}
    if c.get("special") == "ambiguous_tag":
        tags = {0: "S", 1: "S"}
    if c.get("special") == "ambiguous_tag_eq_id":
        tags = {1: "n0", 2: "n0"}
    p = make_prog(n, [tuple(e) for e in c["es"]], tags, c["ydefault"])
    ids = p.ids()
    src = p.source()
    acc.cases += 1
    inst = Instance(p)
    d = inst.d
    warnings.simplefilter("ignore")
    check_original(acc, c, inst, "original before compose")
    if c.get("special") == "ambiguous_tag":
        for inputs, outputs in ((["S"], [ids[2]]), ([ids[0]], ["S"]), ("S", ids[2])):
            acc.evaluations += 1
            try:
                d.compose("comp", inputs, outputs)
                acc.violation(V("ambiguous_alias_accepted", f"compose(inputs={inputs}, outputs={outputs}) with a tag naming two nodes was accepted"), c, (), None, src)
            except ValueError:
                acc.mark_nontrivial(("ambiguous", repr(inputs), repr(outputs)))
        return
    if c.get("special") == "ambiguous_tag_eq_id":
        # "n0" is the tag of two nodes (and the id of a third): a string is a tag first, so the alias is ambiguous
        for inputs, outputs in ((["n0"], [ids[2]]), ([], ["n0"]), ("n0", ids[2]), ([], "n0")):
            acc.evaluations += 1
            try:
                d.compose("comp", inputs, outputs)
                acc.violation(V("ambiguous_alias_accepted", f"compose(inputs={inputs}, outputs={outputs}): 'n0' is a tag carried by two nodes (and the id of another) and was accepted"), c, (), None, src)
            except ValueError:
                acc.mark_nontrivial(("ambiguous_eq_id", repr(inputs), repr(outputs)))
        return
    verts = [X] + list(range(n))
    if c.get("special") == "ellipsis":
        pairs = [("...", list(O)) for k in range(n + 1) for O in itertools.combinations(range(n), k)]
    else:
        # inputs in EVERY order (for <= 3 inputs; larger sets: sorted and reversed), outputs sorted and reversed
        def orders(I):
            if len(I) <= 3:
                return [list(x) for x in itertools.permutations(I)]
            return [list(I), list(reversed(I))]
        pairs = [(Io, list(O)) for ki in range(len(verts) + 1) for I in itertools.combinations(verts, ki) for Io in orders(I)
                 for ko in range(n + 1) for O in itertools.combinations(range(n), ko)]
    stats = {}
    for I, O in pairs:
        Iv = [X] + ([-2] if c["ydefault"] else []) if I == "..." else I
        ref = reference(p, Iv, O)
        in_alias = ... if I == "..." else [alias_of(p, d, v, c["form"]) for v in I]
        single_out = len(O) == 1 and (len(Iv) + O[0]) % 2 == 0  # single alias instead of a list, by rotation
        out_alias = alias_of(p, d, O[0], c["form"]) if single_out else [alias_of(p, d, v, c["form"]) for v in O]
        acc.evaluations += 1
        case = dict(c, I=("..." if I == "..." else I), O=O)
        try:
            comp = d.compose("comp", in_alias, out_alias, is_async=c["is_async"])
            err = None
        except ValueError as e:
            err = e
        except Exception as e:  # noqa: BLE001
            acc.violation(V("compose_internal_error", f"compose(I={I}, O={O}) raised {e!r}", exc=type(e).__name__), case, (), None, src)
            continue
        stats[ref[0]] = stats.get(ref[0], 0) + 1
        if ref[0] == "either":
            continue
        if ref[0] == "error":
            if err is None:
                acc.violation(V("compose_not_refused", f"compose(I={I}, O={O}) must raise ValueError ({ref[1]})", why=ref[1]), case, (), None, src)
            else:
                acc.mark_nontrivial((repr(c), repr(I), repr(O)))
            continue
        if err is not None:
            acc.violation(V("compose_refused", f"compose(I={I}, O={O}) is valid (needs {sorted(ref[1])}) but raised {err!r}"), case, (), None, src)
            continue
        # ---- run the composed DAG with distinguishable input values
        from tawazi import AsyncDAG
        want_async = c["is_async"] if c["is_async"] is not None else False
        if isinstance(comp, AsyncDAG) != want_async:
            acc.violation(V("compose_flavour", f"compose(is_async={c['is_async']}) returned {type(comp).__name__}"), case, (), None, src)
        vals = [supplied(v) for v in Iv]
        H.Tok.FALSY = set()
        if c["falsy_inputs"]:
            for (i, j, k, path) in c["es"]:
                if k == "flag" and i in Iv:
                    H.Tok.FALSY.add((f"IN{i}", tuple(path)))
        if isinstance(comp, AsyncDAG):
            async def op():
                return await comp(*vals)
        else:
            def op():
                return comp(*vals)
        needs = ref[1]
        Iset = set(Iv)
        # reference: which needed nodes are active (flags) and what they receive ("S" = serial of this execution)
        ran = set()
        exp = {}
        for j in sorted(needs):
            if any(e_.src >= 0 and e_.src not in Iset and e_.src not in ran and e_.path for e_ in p.nodes[j].edges):
                exp = None  # indexing the None of a deactivated node: the plain evaluation raises as well
                break
            a, kw, active = expected_args(p, j, Iset, ran, -1)
            if active:
                ran.add(j)
                exp[j] = (a, kw)
        res = H.run_controlled(op, is_async=isinstance(comp, AsyncDAG))
        acc.evaluations += 1
        if exp is None:
            continue
        if res.outcome != "return":
            acc.violation(V("composed_call_failed", f"compose(I={I}, O={O}) then call raised {res.exc!r}", exc=type(res.exc).__name__), case, (), res.trace, src)
            continue
        serial = next((e[2] for e in res.trace if e[0] == "enter"), 0)
        for j in list(exp):
            exp[j] = expected_args(p, j, Iset, {x for x in ran if x < j}, serial)[:2]
        entered = {}
        for e in res.trace:
            if e[0] == "enter":
                entered.setdefault(e[1], []).append(e)
        want_ids = {ids[j] for j in ran}
        if set(entered) != want_ids or any(len(v) != 1 for v in entered.values()):
            acc.violation(V("composed_wrong_nodes", f"compose(I={I}, O={O}): entered {sorted(entered)}, expected exactly {sorted(want_ids)}"), case, (), res.trace, src)
            continue
        bad = False
        for j in ran:
            e = entered[ids[j]][0]
            if tuple(e[5]) != exp[j][0] or e[6] != exp[j][1]:
                acc.violation(V("composed_wrong_arguments", f"compose(I={I}, O={O}): {ids[j]} received {e[5]!r} {e[6]!r}, expected {exp[j][0]!r} {exp[j][1]!r}"), case, (), res.trace, src)
                bad = True
                break
        if bad:
            continue
        want_val = [Tok(ids[o], serial) if o in ran else None for o in O]
        got = res.value
        okv = (got == want_val[0] or (got is None and want_val[0] is None)) if single_out else (isinstance(got, tuple) and list(got) == want_val)
        if not okv:
            acc.violation(V("composed_wrong_value", f"compose(I={I}, O={O}) returned {got!r}, expected {want_val!r} (single={single_out})"), case, (), res.trace, src)
        if Iset and O:
            acc.mark_nontrivial((repr(c), repr(I), repr(O)))
    H.Tok.FALSY = set(p.falsy)
    check_original(acc, c, inst, "original after composing and running composed DAGs")
    for k, v in stats.items():
        acc.extra["pairs_" + k] = acc.extra.get("pairs_" + k, 0) + v
    acc.states += sum(stats.values())
    acc.transitions += sum(stats.values())
    if acc.cases <= 2:
        acc.sample({"case": c, "pairs": stats})


def run_shard(tier, k, n, acc):
    for c in shard_iter(cases(tier), k, n, acc):
        run_one(acc, c)


def replay(v):
    from ..acc import Acc
    a = Acc(ID, 0, 1, 600)
    c = {k: x for k, x in v["case"].items() if k not in ("I", "O", "history")}
    run_one(a, c)
    return a.violations, None
