"""C01 - a DAG call returns exactly what the plain Python function would return."""
from __future__ import annotations

from .. import harness as H
from .. import ir
from ..prog import CONFIGS, build, compare, run_program
from ..progspace import OPS_Q, OPS_T, PARAMS_X, PARAMS_XY, inputs_for, programs, returns
from ..spaces import shard_iter

ID = "C01"
BUDGET = {"quick": 300, "thorough": 1200}


def n_lib_calls(prog) -> int:
    return sum(1 for st in prog["body"] if st["k"] in ("call", "sub"))


def cases(tier: str):
    q = tier == "quick"
    idx = 0
    # programs of <= 2 statements: both parameter lists, every return shape family member by rotation (quick) / all (thorough)
    for p in programs(2, [PARAMS_X, PARAMS_XY], OPS_Q if q else OPS_T, with_subs=True):
        rets = returns(p["env"], [x[0] for x in p["params"]])
        if q:
            yield dict(p, ret=rets[idx % len(rets)], configs=[CONFIGS[idx % 6]], flavours=[bool((idx // 6) % 2)], explore=True)
        else:
            for r in rets:
                yield dict(p, ret=r, configs=CONFIGS, flavours=[False, True], explore=True)
        idx += 1
    for body, ret in noncommutative_programs():
        yield dict(name="main", params=[["x", "<nodefault>"]], body=body, ret=ret, subs=[], env=[], configs=["mc1", "mc3"], flavours=[False, True],
                   explore=False, nested=True)
    for body, ret in exotic_key_programs():
        yield dict(name="main", params=[["x", "<nodefault>"]], body=body, ret=ret, subs=[], env=[], configs=["mc1", "mc3"], flavours=[False, True],
                   explore=False, nested=True)
    for body, ret in twin_constant_programs():
        yield dict(name="main", params=[["x", "<nodefault>"]], body=body, ret=ret, subs=[], env=[], configs=["mc1", "mc3"], flavours=[False, True],
                   explore=False, nested=True)
    for body, ret in wide_programs():
        for config in ("mc3", "res_rot"):
            yield dict(name="main", params=[["x", "<nodefault>"]], body=body, ret=ret, subs=[], env=[], configs=[config], flavours=[False, True],
                       explore=True, wide=True)
    # nested-DAG programs shared with C20: repeated calls of one inner DAG (module-level and local), results used whole
    from . import c20
    for cc in c20.cases("quick"):
        if cc.get("fam") in ("R", "C") or (cc.get("fam") == "A" and cc.get("use") == "returned"):
            pr = cc["prog"]
            yield dict(name=pr["name"], params=pr["params"], body=pr["body"], ret=pr["ret"], subs=pr["subs"], env=[], configs=["mc1", "mc3"],
                       flavours=[False, True], explore=False, nested=True, local_subs=cc.get("local_subs", False))
    # 3-statement chains
    for p in programs(3, [PARAMS_X] if q else [PARAMS_X, PARAMS_XY], ["+"] if q else OPS_Q, with_subs=not q, chain3_only=True):
        if len(p["body"]) < 3:
            continue
        if q:
            # quick: the first statement of a 3-statement chain comes from the reduced alphabet {k0(), f(x)} (no constants, no flags)
            st0 = p["body"][0]
            if st0["k"] != "call" or st0.get("flag") is not None or st0.get("kwargs") or any(a[0] != "p" for a in st0["args"]):
                continue
        rets = returns(p["env"], [x[0] for x in p["params"]])
        if q:
            yield dict(p, ret=rets[idx % len(rets)], configs=[CONFIGS[idx % 6]], flavours=[bool((idx // 6) % 2)], explore=False, few_inputs=True)
        else:
            yield dict(p, ret=rets[idx % len(rets)], configs=["mc1", "mc3", CONFIGS[2 + idx % 4]], flavours=[bool(idx % 2)], explore=True)
        idx += 1


def _call(fn, args, out, **kw):
    return {"k": "call", "fn": fn, "args": args, "kwargs": kw.get("kwargs", {}), "flag": kw.get("flag"), "out": out}


def wide_programs():
    """4-6 statement programs with several independent calls and joins: every completion order, tie-break and done batch."""
    X = ["p", "x"]

    def v(n, *path):
        return ["v", n, list(path)]

    yield [_call("inc", [X], "a"), _call("add", [X, ["c", 2]], "b"), _call("mkd", [X], "c"), _call("add", [v("a"), v("c", "k")], "d"), _call("inc", [v("b")], "e")], \
        ["tuple", [v("d"), v("e"), v("c", "l", 1)]]
    yield [_call("inc", [X], "a"), _call("pair", [X], "b"), _call("k0", [], "c"), _call("add", [v("a")], "d", kwargs={"y": v("c")}),
           _call("add", [v("b", 0), v("c")], "e"), _call("inc", [v("b", 1)], "f")], ["dict", {"d": v("d"), "e": v("e"), "f": v("f")}]
    yield [_call("inc", [X], "a"), _call("inc", [X], "b"), _call("inc", [X], "c"), _call("add", [v("a"), v("c")], "d"), _call("ident", [v("b")], "e", flag=v("a"))], \
        ["list", [v("d"), v("e")]]
    yield [_call("pair_u", [X], ["a", "a2"]), _call("k0", [], "b"), _call("mkd", [v("b")], "c"), _call("add", [v("a2")], "d", kwargs={"y": v("c", "l", 0)}),
           {"k": "op", "op": "+", "a": v("a"), "b": v("b"), "out": "e"}], ["tuple", [v("d"), v("e")]]


TWINS = [(1, True, 1.0), (0, False, 0.0), (2, 2.0)]


def twin_constant_programs():
    """two constants of one describing function that compare equal but are different values (1 / True / 1.0 ...): as
    positional argument, keyword argument, activation flag, operand and member of the return value, in both orders"""
    import itertools
    X = ["p", "x"]

    def v(n, *path):
        return ["v", n, list(path)]

    for grp in TWINS:
        for c1, c2 in itertools.permutations(grp, 2):
            yield [_call("ident", [["c", c1]], "a"), _call("ident", [["c", c2]], "b")], ["tuple", [v("a"), v("b")]]
            yield [_call("ident", [["c", c1]], "a"), _call("add", [X], "b", kwargs={"y": ["c", c2]})], ["list", [v("a"), v("b")]]
            yield [_call("add", [X], "a", kwargs={"y": ["c", c1]}), _call("strf", [["c", c2]], "b")], ["tuple", [v("a"), v("b"), ["c", c1], ["c", c2]]]
            yield [_call("ident", [["c", c2]], "a", flag=["c", c1]), _call("ident", [["c", c1]], "b", flag=["c", c2])], ["tuple", [v("a"), v("b")]]
            yield [_call("inc", [X], "a"), {"k": "op", "op": "+", "a": v("a"), "b": ["c", c1], "out": "b"},
                   {"k": "op", "op": "*", "a": ["c", c2], "b": v("a"), "out": "c"}], ["dict", {"b": v("b"), "c": v("c"), "k": ["c", c2]}]


def exotic_key_programs():
    """int keys, negative list positions, an int key that is negative: r[1], r["k"][-1], r["k"][-2], r[-1] - as arguments, keyword
    arguments, flags and members of the return value"""
    X = ["p", "x"]

    def v(n, *path):
        return ["v", n, list(path)]

    yield [_call("mkx", [X], "m"), _call("add", [v("m", 1), v("m", "k", -1)], "a"), _call("ident", [v("m", -1)], "b")], \
        ["tuple", [v("a"), v("b"), v("m", "k", -2), v("m", 1)]]
    yield [_call("mkx", [X], "m"), _call("add", [v("m", "k", 0)], "a", kwargs={"y": v("m", "k", -1)}), _call("ident", [v("m", 1)], "b", flag=v("m", "k", -3))], \
        ["dict", {"a": v("a"), "b": v("b"), "last": v("m", "k", -1)}]
    yield [_call("pair", [X], "t"), _call("add", [v("t", -1), v("t", -2)], "a"), {"k": "op", "op": "-", "a": v("t", -1), "b": v("t", 0), "out": "d"}], \
        ["list", [v("a"), v("d"), v("t", -1)]]


def noncommutative_programs():
    """operators whose operands do not commute (str, tuple, list-valued dict entries) with the constant on either side"""
    X = ["p", "x"]

    def v(n, *path):
        return ["v", n, list(path)]

    def op(o, a, b, out):
        return {"k": "op", "op": o, "a": a, "b": b, "out": out}

    yield [_call("strf", [X], "s"), op("+", ["c", "pre-"], v("s"), "a"), op("+", v("s"), ["c", "-post"], "b"), op("*", ["c", 2], v("s"), "c"),
           op("+", v("a"), v("b"), "d")], ["tuple", [v("a"), v("b"), v("c"), v("d")]]
    yield [_call("pair", [X], "t"), op("+", ["c", (9,)], v("t"), "a"), op("+", v("t"), ["c", (9,)], "b"), op("*", ["c", 2], v("t"), "c")], \
        ["list", [v("a"), v("b"), v("c")]]
    yield [_call("mkd", [X], "m"), op("+", ["c", [7]], v("m", "l"), "a"), op("+", v("m", "l"), ["c", [7]], "b"),
           op("-", ["c", 10], v("m", "k"), "c"), op("//", ["c", 7], ["c", 2], "d") if False else op("%", ["c", 7], v("m", "l", 1), "d")], \
        ["dict", {"a": v("a"), "b": v("b"), "c": v("c"), "d": v("d")}]
    yield [_call("strf", [X], "s"), _call("strf", [["c", 1]], "u"), op("+", v("s"), v("u"), "a"), op("+", v("u"), v("s"), "b"),
           op("<", ["c", "s0"], v("s"), "c"), op(">=", ["c", "s1"], v("s"), "d")], ["tuple", [v("a"), v("b"), v("c"), v("d")]]


def run_one(acc, c):
    prog = {k: c[k] for k in ("name", "params", "body", "ret", "subs")}
    inputs = inputs_for(c["params"])
    if c.get("few_inputs"):
        inputs = inputs[:2]
    case = {"prog": prog}
    if c.get("nested"):
        case["local_subs"] = c.get("local_subs", False)
        run_program(acc, case, prog, [(0,), (3,)], c["configs"], c["flavours"], explore_all=False, local_subs=c.get("local_subs", False))
        acc.mark_nontrivial(("nested", repr(prog["body"])[:200], repr(prog["ret"])))
        return
    if c.get("wide"):
        run_program(acc, case, prog, inputs[:1], c["configs"], c["flavours"], explore_all=True, tie_budget=0, max_execs=20000)
        return
    run_program(acc, case, prog, inputs, c["configs"], c["flavours"], explore_all=c["explore"] and n_lib_calls(prog) <= 3)
    kinds = {st["k"] + ":" + str(st.get("fn", st.get("op", st.get("dag")))) + ("!" if st.get("flag") else "") for st in prog["body"]}
    if len(prog["body"]) >= 2:
        acc.mark_nontrivial((tuple(sorted(kinds)), prog["ret"][0]))  # distinct feature combinations
    if acc.cases <= 2:
        acc.sample({"source": ir.source(prog), "inputs": [list(i) for i in inputs], "configs": c["configs"],
                    "reference": [repr(ir.ref_eval(prog, i)[:2]) for i in inputs]})


def run_shard(tier, k, n, acc):
    import itertools

    from . import c17
    for c in shard_iter(itertools.chain(cases(tier), c17.overlap_subset()), k, n, acc):
        if c.get("kind") == "gather":
            c17.run_gather(acc, c)  # two awaits of one AsyncDAG object overlap: each returns what its own arguments give
        else:
            run_one(acc, c)


def replay(v):
    from ..acc import Acc
    c = v["case"]
    a = Acc(ID, 0, 1, 600)
    if c.get("kind") == "gather":
        from . import c17
        c17.run_gather(a, c, only_prefix=v["prefix"])
        return a.violations, None
    from ..prog import replay_built
    return replay_built(a, v)
