"""C01 - a DAG call returns exactly what the plain Python function would return."""
from __future__ import annotations

from .. import harness as H
from .. import ir
from ..prog import CONFIGS, build, compare, run_program
from ..progspace import OPS_Q, OPS_T, PARAMS_X, PARAMS_XY, inputs_for, programs, returns
from ..spaces import shard_iter

ID = "C01"
BUDGET = {"quick": 110, "thorough": 3000}


def n_lib_calls(prog) -> int:
    return sum(1 for st in prog["body"] if st["k"] in ("call", "sub"))


def cases(tier: str):
    q = tier == "quick"
    idx = 0
    # programs of <= 2 statements: both parameter lists, every return shape family member by rotation (quick) / all (thorough)
    for p in programs(2, [PARAMS_X, PARAMS_XY], OPS_Q if q else OPS_T, with_subs=True):
        rets = returns(p["env"], [x[0] for x in p["params"]])
        if q:
            yield dict(p, ret=rets[idx % len(rets)], configs=[CONFIGS[idx % 6]], flavours=[bool((idx // 6) % 2)], explore=True)
        else:
            for r in rets:
                yield dict(p, ret=r, configs=CONFIGS, flavours=[False, True], explore=True)
        idx += 1
    # 3-statement chains
    for p in programs(3, [PARAMS_X] if q else [PARAMS_X, PARAMS_XY], ["+"] if q else OPS_Q, with_subs=not q, chain3_only=True):
        if len(p["body"]) < 3:
            continue
        rets = returns(p["env"], [x[0] for x in p["params"]])
        if q:
            yield dict(p, ret=rets[idx % len(rets)], configs=[CONFIGS[idx % 6]], flavours=[bool((idx // 6) % 2)], explore=False, few_inputs=True)
        else:
            yield dict(p, ret=rets[idx % len(rets)], configs=["mc1", "mc3", CONFIGS[2 + idx % 4]], flavours=[bool(idx % 2)], explore=True)
        idx += 1


def run_one(acc, c):
    prog = {k: c[k] for k in ("name", "params", "body", "ret", "subs")}
    inputs = inputs_for(c["params"])
    if c.get("few_inputs"):
        inputs = inputs[:2]
    case = {"prog": prog}
    run_program(acc, case, prog, inputs, c["configs"], c["flavours"], explore_all=c["explore"] and n_lib_calls(prog) <= 3)
    kinds = {st["k"] + ":" + str(st.get("fn", st.get("op", st.get("dag")))) + ("!" if st.get("flag") else "") for st in prog["body"]}
    if len(prog["body"]) >= 2:
        acc.mark_nontrivial((tuple(sorted(kinds)), prog["ret"][0]))  # distinct feature combinations
    if acc.cases <= 2:
        acc.sample({"source": ir.source(prog), "inputs": [list(i) for i in inputs], "configs": c["configs"],
                    "reference": [repr(ir.ref_eval(prog, i)[:2]) for i in inputs]})


def run_shard(tier, k, n, acc):
    for c in shard_iter(cases(tier), k, n, acc):
        run_one(acc, c)


def replay(v):
    from ..acc import Acc
    c = v["case"]
    a = Acc(ID, 0, 1, 600)
    prog = c["prog"]
    d, ns, src = build(prog, c["config"], c["is_async"])
    args = tuple(c["args"])
    if c["is_async"]:
        async def op():
            return await d(*args)
    else:
        def op():
            return d(*args)
    res = H.run_controlled(op, prefix=tuple(v["prefix"]), is_async=c["is_async"])
    compare(a, c, prog, args, res, ir.ref_eval(prog, args), src)
    return a.violations, res.trace
