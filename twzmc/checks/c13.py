"""C13 - debug nodes run only when enabled and never influence production results."""
from __future__ import annotations

import itertools

from .. import harness as H
from ..build import build_gprog
from ..gprog import shapes
from ..monitors import V
from ..selcheck import evaluate, subsets_upto
from ..spaces import prog_of, shard_iter
from .c03 import down_closed_sets

ID = "C13"
BUDGET = {"quick": 240, "thorough": 600}


def cases(tier: str):
    q = tier == "quick"
    yield dict(kind="nested")
    for n in (1, 2, 3, 4):
        for es in shapes(n):
            valid = [tuple(s) for s in down_closed_sets(n, es)]
            yield dict(kind="build", n=n, es=es)
            for dbg in valid:
                if len(dbg) == n and n > 1:
                    continue
                for debug_on in (False, True):
                    kmax = 2 if n <= 3 else (1 if q else 2)
                    yield dict(kind="sel", n=n, es=es, debug=list(dbg), debug_on=debug_on, kmax=kmax)
            # debug nodes whose parents include a setup node that has NOT run yet: selections by the production parents
            if 3 <= n <= 4:
                for dbg in valid:
                    for s0 in range(n):
                        if s0 in dbg or any(b == s0 for (a, b) in es) or not any(a == s0 and b in dbg for (a, b) in es):
                            continue
                        for debug_on in (True,):
                            yield dict(kind="sel", n=n, es=es, debug=list(dbg), setup=[s0], debug_on=debug_on, kmax=1, fresh_each=True)
            # setup() with debug nodes downstream of setup nodes
            if n >= 2 and n <= 3:
                for dbg in valid:
                    st = [i for i in range(n) if i not in dbg and all(a in range(n) for a in [0])]
                    # setup nodes: the ancestor-closed complement part that has no dependency on non-setup nodes
                    st = [i for i in range(n) if i not in dbg]
                    # keep it valid: setup set must be closed under predecessors -> the complement of a down-closed set is
                    if st and len(dbg) < n:
                        for debug_on in (False, True):
                            yield dict(kind="setup", n=n, es=es, debug=list(dbg), setup=st, debug_on=debug_on)


def build_clause(acc, c):
    """Every placement of debug flags: the builder must refuse exactly those where a non-debug node depends on a debug node."""
    from tawazi.errors import TawaziBaseException

    n, es = c["n"], [tuple(e) for e in c["es"]]
    valid = {tuple(s) for s in down_closed_sets(n, es)} | {()}
    acc.cases += 1
    from ..spaces import kinds_rotating
    for k in range(0, n + 1):
      for off in (0, 1, 4, 5):
        es4 = kinds_rotating(es, off)
        if off and es4 == kinds_rotating(es, 0):
            continue
        for dbg in itertools.combinations(range(n), k):
            p = prog_of(dict(n=n, es=es4, debug=list(dbg), res="t" * n, mc=1))
            acc.evaluations += 1
            try:
                build_gprog(p)
                refused = False
            except (TawaziBaseException, ValueError):
                refused = True
            want_refused = dbg not in valid
            if want_refused:
                acc.mark_nontrivial(("build", n, tuple(es4), dbg))
            if refused != want_refused:
                acc.violation(V("debug_dependency_check", f"debug nodes {dbg} on shape {es4}: builder {'refused' if refused else 'accepted'}, reference says {'refuse' if want_refused else 'accept'}",
                                refused=refused), dict(c, dbg=list(dbg), es4=es4), (), None, p.source())


NESTED_SRC = '''
from tawazi import xn, dag
@xn(debug=True)
def dbg(x):
    return (x, x)
@xn
def prod(x, y=1):
    return x
@dag
def inner(a, b=2):
    return prod(a, b)
@dag
def mid(t):
    return inner(t)
@xn
def k():
    return 5
@dag
def noargs():
    return prod(k())
@dag
def alldefault(a=1, b=2):
    return prod(a, b)
'''
NESTED_BODIES = {
    "arg": "    d = dbg(x)\n    return inner(d)",
    "second_arg": "    d = dbg(x)\n    return inner(x, d)",
    "indexed": "    d = dbg(x)\n    return inner(d[0])",
    "flag": "    d = dbg(x)\n    return inner(x, twz_active=d)",
    "two_levels": "    d = dbg(x)\n    return mid(d)",
    "debug_chain": "    d = dbg(x)\n    e = dbg(d)\n    return inner(e[1])",
    # the only link between the debug node and the production nodes is the flag of an inner DAG called WITHOUT positional arguments
    "flag_noargs": "    d = dbg(x)\n    return noargs(twz_active=d)",
    "flag_noargs_indexed": "    d = dbg(x)\n    return noargs(twz_active=d[0])",
    "flag_alldefault": "    d = dbg(x)\n    return alldefault(twz_active=d)",
}


def nested_clause(acc, c):
    """a debug node's value must not reach production nodes through a DAG called inside the DAG either"""
    from tawazi.errors import TawaziBaseException

    from ..build import exec_source
    acc.cases += 1
    for name, body in NESTED_BODIES.items():
        src = NESTED_SRC + "@dag\ndef outer(x):\n" + body + "\n"
        acc.evaluations += 1
        try:
            exec_source(src)
            refused = False
        except (TawaziBaseException, ValueError):
            refused = True
        acc.mark_nontrivial(("nested", name))
        if not refused:
            acc.violation(V("debug_dependency_check", f"a debug node's result passed to a nested DAG ({name}) was accepted by the builder", refused=False, nested=name),
                          dict(c, nested=name), (), None, src)
    # control: the same shapes with a production node instead of the debug node are accepted
    for name, body in NESTED_BODIES.items():
        src = NESTED_SRC.replace("@xn(debug=True)", "@xn") + "@dag\ndef outer(x):\n" + body + "\n"
        acc.evaluations += 1
        try:
            exec_source(src)
        except Exception as e:  # noqa: BLE001
            acc.violation(V("nested_build_refused", f"control DAG ({name}, no debug node) was refused: {e!r}", nested=name), dict(c, nested=name), (), None, src)


def sel_case(acc, c):
    from tawazi import cfg

    n = c["n"]
    p = prog_of(dict(c, res="t" * n, mc=1))
    ids = p.ids()
    acc.cases += 1
    cfg.RUN_DEBUG_NODES = c["debug_on"]
    try:
        d, ns = build_gprog(p)
        # whole call
        res = H.run_controlled(lambda: d())
        acc.evaluations += 1
        ent = [e[1] for e in res.trace if e[0] == "enter"]
        want = [ids[i] for i in range(n) if c["debug_on"] or i not in c["debug"]]
        if res.outcome != "return" or sorted(ent) != sorted(want):
            acc.violation(V("whole_call_debug", f"whole-DAG call with RUN_DEBUG_NODES={c['debug_on']} entered {ent}, expected {want} ({res.outcome} {res.exc!r})",
                            debug_on=c["debug_on"]), c, (), res.trace, p.source())
        elif res.outcome == "return":
            nondebug = [res.value[i] is not None for i in range(n) if i not in c["debug"]]
            if not all(nondebug):
                acc.violation(V("production_value_changed", f"non-debug node returned None: {res.value!r}"), c, (), res.trace, p.source())
        stats = {}
        for Ri in subsets_upto(n, c["kmax"]):
            for Xi in subsets_upto(n, c["kmax"]):
                for Ti in subsets_upto(n, c["kmax"]):
                    if Ri is None and Xi is None and Ti is None:
                        continue
                    R, X, T = ([f"n{i}" for i in s] if s is not None else None for s in (Ri, Xi, Ti))
                    if c.get("fresh_each"):
                        d, ns = build_gprog(p)  # the setup node must not have run before this selection
                    k = evaluate(acc, c, d, ns, p, R, X, T, debug_on=c["debug_on"], check_id="C13")
                    stats[k] = stats.get(k, 0) + 1
                    named = set(Ri or ()) | set(Xi or ()) | set(Ti or ())
                    if k == "run" and (named & set(c["debug"]) or c["debug"]):
                        acc.mark_nontrivial((repr(c), repr((Ri, Xi, Ti))))
        # executors that run "everything node t depends on" (cache_deps_of): the same debug rule applies
        if c["debug"] and not c.get("fresh_each"):
            import os
            tmpd = os.environ.get("VERIF_TMP", "/tmp")
            for t in range(n):
                path = os.path.join(tmpd, f"c13-{os.getpid()}.pkl")
                d2, _ns2 = build_gprog(p)
                res = H.run_controlled(lambda: d2.executor(cache_deps_of=[ids[t]], cache_in=path)())
                acc.evaluations += 1
                ent = sorted(e[1] for e in res.trace if e[0] == "enter")
                anc = p.anc(t) | {t}
                if t in c["debug"] and not c["debug_on"]:
                    # naming a disabled debug node: refused, or (a part of) its production ancestors run - never a debug node
                    want = sorted(ids[i] for i in anc if i not in c["debug"])
                    ok = (res.outcome == "raise" and not ent) or (res.outcome == "return" and set(ent) <= set(want))
                    want = f"a subset of {want} (or a refusal)"
                elif not c["debug_on"]:
                    want = sorted(ids[i] for i in anc if i not in c["debug"])
                    ok = res.outcome == "return" and ent == want
                else:
                    want = sorted(ids[i] for i in anc)
                    ok = res.outcome == "return" and set(want) <= set(ent) and all(ids.index(x) in c["debug"] for x in set(ent) - set(want))
                acc.mark_nontrivial((repr(c), "cache_deps_of", t))
                if not ok:
                    acc.violation(V("cache_deps_of_debug", f"executor(cache_deps_of=[{ids[t]}]) with RUN_DEBUG_NODES={c['debug_on']} (debug nodes {[ids[i] for i in c['debug']]}) entered {ent} "
                                    f"({res.outcome} {res.exc!r}), expected {want}", debug_on=c["debug_on"]), dict(c, t=t), (), res.trace, p.source())
                try:
                    os.remove(path)
                except OSError:
                    pass
        acc.states += sum(stats.values())
        acc.transitions += sum(stats.values())
        for k, v in stats.items():
            acc.extra["sel_" + k] = acc.extra.get("sel_" + k, 0) + v
        if acc.cases <= 3:
            acc.sample({"case": c, "outcomes": stats})
    finally:
        cfg.RUN_DEBUG_NODES = False


def setup_case(acc, c):
    from tawazi import cfg

    n = c["n"]
    p = prog_of(dict(c, res="t" * n, mc=1))
    ids = p.ids()
    acc.cases += 1
    cfg.RUN_DEBUG_NODES = c["debug_on"]
    try:
        d, ns = build_gprog(p)
        res = H.run_controlled(lambda: d.setup())
        acc.evaluations += 1
        ent = [e[1] for e in res.trace if e[0] == "enter"]
        dbg_ran = [x for x in ent if ids.index(x) in c["debug"]]
        if res.outcome != "return" or (dbg_ran and not c["debug_on"]) or sorted(x for x in ent if x not in dbg_ran) != sorted(ids[i] for i in c["setup"]):
            acc.violation(V("setup_debug", f"setup() with RUN_DEBUG_NODES={c['debug_on']} entered {ent}; setup nodes {[ids[i] for i in c['setup']]} ({res.outcome} {res.exc!r})",
                            debug_on=c["debug_on"]), c, (), res.trace, p.source())
        acc.mark_nontrivial((repr(c), "setup"))
        # then a call: setup nodes must not run again, debug nodes per flag
        res = H.run_controlled(lambda: d())
        acc.evaluations += 1
        ent = [e[1] for e in res.trace if e[0] == "enter"]
        want = [ids[i] for i in range(n) if i not in c["setup"] and (c["debug_on"] or i not in c["debug"])]
        if res.outcome != "return" or sorted(ent) != sorted(want):
            acc.violation(V("call_after_setup_debug", f"call after setup() entered {ent}, expected {want}", debug_on=c["debug_on"]), c, (), res.trace, p.source())
    finally:
        cfg.RUN_DEBUG_NODES = False


def run_one(acc, c):
    if c["kind"] == "nested":
        nested_clause(acc, c)
    elif c["kind"] == "build":
        build_clause(acc, c)
    elif c["kind"] == "sel":
        sel_case(acc, c)
    else:
        setup_case(acc, c)


def run_shard(tier, k, n, acc):
    for c in shard_iter(cases(tier), k, n, acc):
        run_one(acc, c)


def replay(v):
    from tawazi import cfg

    from ..acc import Acc
    c = v["case"]
    a = Acc(ID, 0, 1, 600)
    if "R" in c:
        p = prog_of(dict(c, res="t" * c["n"], mc=1))
        cfg.RUN_DEBUG_NODES = c["debug_on"]
        try:
            d, ns = build_gprog(p)
            evaluate(a, c, d, ns, p, c["R"], c["X"], c["T"], debug_on=c["debug_on"])
        finally:
            cfg.RUN_DEBUG_NODES = False
    else:
        run_one(a, c)
    return a.violations, None
