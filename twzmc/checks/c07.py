"""C07 - compound priority is a deterministic, documented function of the DAG."""
from __future__ import annotations

import copy
import os

from .. import harness as H
from .. import permset
from ..build import build_gprog
from ..explore import StateCounter, explore
from ..gprog import prio_menu, shapes
from ..monitors import V
from ..spaces import all_prio, prog_of, shard_iter, single_selections

ID = "C07"
BUDGET = {"quick": 240, "thorough": 900}
MAX_PERM_EXECS = 300


def cases(tier: str):
    q = tier == "quick"
    for n in (1, 2, 3, 4):
        for es in shapes(n):
            for prio in all_prio(n):
                yield dict(n=n, es=es, prio=prio, res="t" * n, mc=1)
    n = 5
    onehot = [tuple(3 if j == i else 1 for j in range(n)) for i in range(n)]
    for es in shapes(n):
        if q and len(es) not in (4, 5, 6):
            continue  # quick: the band of shapes where shared descendants at different depths live
        for prio in (onehot + [(1,) * n] if q else onehot + prio_menu(n) + [(-1, 2, -1, 2, -1)]):
            yield dict(n=n, es=es, prio=prio, res="t" * n, mc=1)


def debug_cases(tier):
    """debug nodes with priorities, RUN_DEBUG_NODES on: nodes re-added to a sub-graph keep their compound priority"""
    from .c03 import down_closed_sets
    q = tier == "quick"
    for n in (2, 3, 4):
        for es in shapes(n):
            if n == 4 and q and len(es) > 3:
                continue
            for dbg in down_closed_sets(n, es):
                if len(dbg) == n:
                    continue
                for prio in (tuple(range(1, n + 1)), tuple(range(n, 0, -1)), tuple(3 if j in dbg else 1 for j in range(n))):
                    yield dict(n=n, es=es, prio=prio, res="t" * n, mc=1, debug=list(dbg), family="debug")


def run_debug_case(acc, c):
    from tawazi import cfg
    p = prog_of(c)
    ids = p.ids()
    want = ref_table(p)
    acc.cases += 1
    cfg.RUN_DEBUG_NODES = True
    try:
        d, ns = build_gprog(p)
        for sel in [None] + single_selections(p)[1:]:
            kw = {}
            if sel is not None:
                for key, name in (("T", "target_nodes"), ("X", "exclude_nodes"), ("R", "root_nodes")):
                    if sel.get(key) is not None:
                        kw[name] = [ids[i] for i in sel[key]]
            try:
                g = d.executor(**kw).graph
            except ValueError:
                continue
            acc.evaluations += 1
            compare(acc, c, f"executor({kw}).graph with RUN_DEBUG_NODES on", dict(g.compound_priority), want, set(g.nodes))
            if any(ids[i] in g.nodes for i in c["debug"]) and sel is not None:
                acc.mark_nontrivial((repr(c), repr(sel)))
        acc.states += 1
        acc.transitions += 1
    finally:
        cfg.RUN_DEBUG_NODES = False


def ref_table(p, prios=None):
    prios = prios if prios is not None else [nd.prio for nd in p.nodes]
    return {p.ids()[i]: prios[i] + sum(prios[j] for j in p.desc(i)) for i in range(len(p.nodes))}


def greedy_order(p, sel, prios=None):
    """Reference mc=1 order; None when two simultaneously ready nodes tie on the reference compound priority."""
    prios = prios if prios is not None else [nd.prio for nd in p.nodes]
    cp = {i: prios[i] + sum(prios[j] for j in p.desc(i)) for i in range(len(p.nodes))}
    done, order = set(), []
    todo = set(sel)
    while todo:
        ready = [i for i in todo if all(d in done or d not in sel for d in p.deps(i))]
        best = max(cp[i] for i in ready)
        top = [i for i in ready if cp[i] == best]
        if len(top) > 1:
            return None
        order.append(top[0])
        done.add(top[0])
        todo.discard(top[0])
    return [p.ids()[i] for i in order]


def compare(acc, c, what, table, want, ids_subset=None):
    bad = {k: (table.get(k, 0), w) for k, w in want.items() if (ids_subset is None or k in ids_subset) and table.get(k, 0) != w}
    if bad:
        k0 = sorted(bad)[0]
        acc.violation(V("compound_priority_table", f"{what}: compound priority of {k0} is {bad[k0][0]}, documented value {bad[k0][1]} (all: {bad})", via=what.split(" ")[0]), c)
        return False
    return True


def entry_order(d, p, sel_kw):
    op = (lambda: d.executor(**sel_kw)()) if sel_kw is not None else (lambda: d())
    res = H.run_controlled(op)
    return [e[1] for e in res.trace if e[0] == "enter"], res


def run_case_c07(acc, c, replaying=False):
    permset.install()
    p = prog_of(c)
    ids = p.ids()
    want = ref_table(p)
    sc = StateCounter()
    acc.cases += 1
    holder = {}

    def build_one(prefix):
        ctl = permset.PermCtl(prefix)
        permset.PERM = ctl
        try:
            d, ns = build_gprog(p)
        finally:
            permset.PERM = None
        holder["d"], holder["ns"] = d, ns
        ctl.table = dict(d.graph_ids.compound_priority)
        return ctl

    nperm = 0
    for prefix, ctl in explore(build_one, None, MAX_PERM_EXECS):
        nperm += 1
        acc.evaluations += 1
        sc.add(ctl)
        compare(acc, c, f"dag.graph_ids (set order {list(prefix)})", ctl.table, want)
    if nperm >= MAX_PERM_EXECS:
        acc.extra["perm_cap_hits"] = acc.extra.get("perm_cap_hits", 0) + 1
    acc.extra["set_orders"] = acc.extra.get("set_orders", 0) + nperm
    d = holder["d"]
    # ---- ways of obtaining the executed graph
    g = d.executor().graph
    acc.evaluations += 1
    compare(acc, c, "executor().graph", dict(g.compound_priority), want, set(g.nodes))
    d2 = copy.deepcopy(d)
    acc.evaluations += 1
    compare(acc, c, "deepcopy(dag).graph_ids", dict(d2.graph_ids.compound_priority), want)
    sels = single_selections(p)[1:]
    for sel in sels:
        kw = {}
        for key, name in (("T", "target_nodes"), ("X", "exclude_nodes"), ("R", "root_nodes")):
            if sel.get(key) is not None:
                kw[name] = [ids[i] for i in sel[key]]
        g = d.executor(**kw).graph
        acc.evaluations += 1
        compare(acc, c, f"executor({kw}).graph", dict(g.compound_priority), want, set(g.nodes))
    # ---- a DAG derived by compose(): node 0 becomes an input, everything else is kept
    if len(ids) >= 2:
        import warnings
        with warnings.catch_warnings():
            warnings.simplefilter("ignore")
            try:
                comp = d.compose("comp", [ids[0]], ids[1:])
            except ValueError:
                comp = None
        if comp is not None:
            acc.evaluations += 1
            compare(acc, c, "compose([n0], rest).graph_ids", dict(comp.graph_ids.compound_priority), {k: v for k, v in want.items() if k != ids[0]})
            g2 = comp.executor().graph
            compare(acc, c, "compose([n0], rest).executor().graph", dict(g2.compound_priority), {k: v for k, v in want.items() if k != ids[0]}, set(g2.nodes))
    # ---- unique reproducible order with max_concurrency=1 and no ties
    n_all = set(range(len(p.nodes)))
    go = greedy_order(p, n_all)
    if go is not None and len(go) > 1:
        acc.mark_nontrivial((repr(c), "order"))
        got, res = entry_order(d, p, None)
        acc.evaluations += 1
        if got != go:
            acc.violation(V("mc1_order", f"max_concurrency=1 entry order {got}, reference order {go}", via="call"), c, (), res.trace, p.source())
    for sel in sels:
        if sel.get("T") is None and sel.get("R") is None:
            continue
        s, _ = p.closure(sel.get("R"), sel.get("X"), sel.get("T"))
        go = greedy_order(p, s)
        if go is None or len(go) < 2:
            continue
        kw = {"target_nodes": [ids[i] for i in sel["T"]]} if sel.get("T") is not None else {"root_nodes": [ids[i] for i in sel["R"]]}
        got, res = entry_order(d, p, kw)
        acc.evaluations += 1
        if got != go:
            acc.violation(V("mc1_order", f"executor({kw}) max_concurrency=1 entry order {got}, reference order {go}", via="executor"), c, (), res.trace, p.source())
    # ---- reconfiguration recomputes
    newp = [0 if (x and i % 2) else ((-x if x else 1) + (i % 2)) for i, x in enumerate(c["prio"])]  # incl. non-zero -> 0
    d.config_from_dict({"nodes": {ids[i]: {"priority": newp[i]} for i in range(len(ids))}})
    acc.evaluations += 1
    compare(acc, c, "after config_from_dict", dict(d.graph_ids.compound_priority), ref_table(p, newp))
    go = greedy_order(p, n_all, newp)
    if go is not None and len(go) > 1:
        got, res = entry_order(d, p, None)
        acc.evaluations += 1
        if got != go:
            acc.violation(V("mc1_order", f"after config_from_dict: entry order {got}, reference order {go}", via="config"), c, (), res.trace, p.source())
    # ---- a SECOND reconfiguration, naming only some nodes (every node keeps the priority it has unless named)
    if len(ids) >= 2:
        for part in ([len(ids) - 1], [0], [i for i in range(len(ids)) if i % 2 == 0]):
            cur = list(newp)
            for i in part:
                cur[i] = cur[i] + 3
            d.config_from_dict({"nodes": {ids[i]: {"priority": cur[i]} for i in part}})
            acc.evaluations += 1
            compare(acc, c, f"after a second, partial config_from_dict (nodes {[ids[i] for i in part]})", dict(d.graph_ids.compound_priority), ref_table(p, cur))
            newp = cur
        go = greedy_order(p, n_all, newp)
        if go is not None and len(go) > 1:
            got, res = entry_order(d, p, None)
            acc.evaluations += 1
            if got != go:
                acc.violation(V("mc1_order", f"after partial reconfigurations: entry order {got}, reference order {go}", via="config2"), c, (), res.trace, p.source())
    # non-trivial: some node has a descendant reachable by two paths, or a frontier holds a node and its parent
    multi = any(len([1 for a in p.succ(i) for _ in [0] if j in p.desc(a) or j == a]) >= 2 for i in range(len(ids)) for j in p.desc(i))
    if multi:
        acc.mark_nontrivial((repr(c), "multipath"))
    s, t = sc.counts()
    acc.states += s
    acc.transitions += t
    if acc.cases <= 2:
        acc.sample({"case": c, "table": want, "set_orders_explored": nperm})


def run_shard(tier, k, n, acc):
    import itertools
    acc.extra["hash_seed_of_shard"] = os.environ.get("PYTHONHASHSEED")
    for c in shard_iter(itertools.chain(cases(tier), debug_cases(tier)), k, n, acc):
        if c.get("family") == "debug":
            run_debug_case(acc, c)
        else:
            run_case_c07(acc, c)


def replay(v):
    from ..acc import Acc
    a = Acc(ID, 0, 1, 600)
    if v["case"].get("family") == "debug":
        run_debug_case(a, v["case"])
        return a.violations, None
    run_case_c07(a, v["case"], True)
    return a.violations, None
