"""C17 - AsyncDAG equals DAG, concurrent awaits are isolated, the loop stays free."""
from __future__ import annotations

import asyncio
import itertools

from .. import harness as H
from .. import ir
from ..build import build_gprog
from ..explore import StateCounter, explore
from ..gprog import NODEFAULT, Edge, GNode, GProg, shapes
from ..harness import Tok
from ..monitors import V
from ..prog import CONFIGS, build, compare, run_program
from ..progspace import OPS_Q, PARAMS_X, PARAMS_XY, inputs_for, programs, returns
from ..spaces import all_res, prog_of, shard_iter

ID = "C17"
BUDGET = {"quick": 240, "thorough": 900}


# ------------------------------------------------------------------ (i) flavour differential over generated programs


def flavour_cases(tier):
    q = tier == "quick"
    idx = 0
    for p in programs(2, [PARAMS_X, PARAMS_XY], OPS_Q[:2] if q else OPS_Q, with_subs=True):
        rets = returns(p["env"], [x[0] for x in p["params"]])
        yield dict(kind="flavour", prog={k: p[k] for k in ("name", "params", "body", "subs")} | {"ret": rets[idx % len(rets)]},
                   config=["mc1", "mc3", "res_rot"][idx % 3])
        idx += 1
    # programs with setup nodes: both flavours must record the same setup results
    for body, ret in SETUP_PROGS:
        yield dict(kind="flavour", prog={"name": "main", "params": [["x", NODEFAULT]], "body": body, "ret": ret, "subs": []}, config="mc3", setup=True)


def _c(fn, args, out, **kw):
    return {"k": "call", "fn": fn, "args": args, "kwargs": kw.get("kwargs", {}), "flag": kw.get("flag"), "out": out}


SETUP_PROGS = [
    ([_c("sk0", [], "s"), _c("add", [["p", "x"], ["v", "s", []]], "r")], ["tuple", [["v", "s", []], ["v", "r", []]]]),
    ([_c("sk0", [], "s"), _c("sinc", [["v", "s", []]], "t"), _c("add", [["v", "t", []], ["p", "x"]], "r"), _c("inc", [["v", "r", []]], "u", flag=["p", "x"])],
     ["dict", {"t": ["v", "t", []], "u": ["v", "u", []]}]),
]


def run_flavour(acc, c):
    prog = c["prog"]
    inputs = inputs_for(prog["params"])
    acc.cases += 1
    outs = {}
    for is_async in (False, True):
        try:
            d, ns, src = build(prog, c["config"], is_async)
        except Exception as e:  # noqa: BLE001
            acc.violation(V("build_failed", f"is_async={is_async}: {e!r}"), c, (), None, ir.source(prog))
            return
        cache = {}
        obs = []
        for args in inputs:
            if is_async:
                async def op(args=args):
                    return await d(*args)
            else:
                def op(args=args):
                    return d(*args)
            res = H.run_controlled(op, is_async=is_async)
            acc.evaluations += 1
            acc.stall(res)
            refres = ir.ref_eval(prog, args, cache if c.get("setup") else None)
            compare(acc, dict(c, is_async=is_async, args=list(args)), prog, args, res, refres, src)
            entered = sorted((e[1], repr(e[5]), repr(sorted(e[6].items()))) for e in res.trace if e[0] == "enter")
            keys = sorted(k for k in d.results if ">!>" not in k and "<!<" not in k)
            obs.append((res.outcome, repr(res.value) if res.outcome == "return" else type(H_root(res.exc)).__name__, entered, keys,
                        [repr(d.results[k]) for k in keys]))
        outs[is_async] = obs
    if outs[False] != outs[True]:
        i = next(j for j in range(len(inputs)) if outs[False][j] != outs[True][j])
        acc.violation(V("flavour_differs", f"args={inputs[i]}: DAG gave {outs[False][i]}, AsyncDAG gave {outs[True][i]}"), c, (), None, ir.source(prog))
    if len(prog["body"]) >= 2:
        acc.mark_nontrivial(("flavour", repr(prog["body"]), repr(prog["ret"])))
    acc.states += 2 * len(inputs)
    acc.transitions += 2 * len(inputs)


def H_root(e):
    from ..prog import root_cause
    return root_cause(e)


# ------------------------------------------------------------------ (ii)+(iii) concurrent awaits in one loop


def gather_cases(tier):
    q = tier == "quick"
    for n in (1, 2, 3):
        for es in shapes(n):
            for res in all_res(n):
                if "a" not in res:
                    continue
                for mc in (1, 2):
                    for k in ((2,) if (q and n == 3) else (2, 3)):
                        if k == 3 and n == 3:
                            continue
                        yield dict(kind="gather", n=n, es=es, res=res, mc=mc, k=k)
    for n in (1, 2):
        for es in shapes(n):
            for res in ("a" * n, ("at" * n)[:n]):
                for mc in (1, 2):
                    yield dict(kind="gather", n=n, es=es, res=res, mc=mc, k=3, chain=True)
    # concurrent FIRST awaits of a DAG whose setup nodes have not run yet
    from .c03 import up_closed_sets
    for n in (2, 3):
        for es in shapes(n):
            for st in up_closed_sets(n, es):
                if len(st) == n:
                    continue
                for res in (("ta" * n)[:n], ("at" * n)[:n], "a" * n):
                    for mc in (1, 2):
                        yield dict(kind="gather", n=n, es=es, res=res, mc=mc, k=2, setup=list(st))
    # A || (B ; C) and then a probe, on an object whose setup nodes are pending at the start; coroutine objects created up front or not
    for n in (2, 3):
        for es in shapes(n):
            if n == 3 and len(es) != 2:
                continue
            for st in up_closed_sets(n, es):
                if len(st) == n:
                    continue
                for res in ("a" * n, ("at" * n)[:n]):
                    for precreate in (False, True):
                        yield dict(kind="gather", n=n, es=es, res=res, mc=2, k=3, setup=list(st), chain=True, probe=True, precreate=precreate)
    # one of the concurrent awaits fails (a root node raises for await #0's argument) while sibling nodes / awaits are in flight:
    # the others are unaffected and the loop thread is never blocked on a running node
    for n in (2, 3):
        for es in shapes(n):
            if len(es) > 1:
                continue
            for res in all_res(n):
                if "a" not in res:
                    continue
                for f in range(n):
                    if any(e[1] == f for e in es):
                        continue  # the failing node must be a root (it sees the DAG argument)
                    yield dict(kind="gather", n=n, es=es, res=res, mc=2, k=2, failing=f)
    # one AsyncDAG execution, wide shapes, EVERY completion order (the await-based wait must release successors exactly like the blocking one)
    for es in shapes(4):
        if len(es) > 3 or not es:
            continue
        for res in ("aaaa", "atat", "aata", "taaa"):
            yield dict(kind="async_sched", n=4, es=es, res=res, mc=3, is_async=True, ties=0)


def gprog_of(c) -> GProg:
    p = prog_of(dict(n=c["n"], es=c["es"], res=c["res"], mc=c["mc"], is_async=True, setup=c.get("setup", [])))
    nodes = list(p.nodes)
    for i in range(c["n"]):
        if not nodes[i].edges and not nodes[i].setup:
            nodes[i] = GNode(**{**nodes[i].__dict__, "edges": (Edge(-1, "pos"),)})
    return GProg(nodes=tuple(nodes), mc=c["mc"], is_async=True, params=(("x", NODEFAULT),))


def run_gather(acc, c, only_prefix=None):
    p = gprog_of(c)
    ids = p.ids()
    k = c["k"]
    acc.cases += 1
    d, ns = build_gprog(p)
    src = p.source()
    argv = [f"arg{i}" for i in range(k + 1)]
    H.FAIL_IF_ARG.clear()
    failing = c.get("failing")
    if failing is not None:
        H.FAIL_IF_ARG[ids[failing]] = "arg0"
    sc = StateCounter()
    holder = {}

    def run_one(prefix):
        nonlocal d
        if c.get("setup"):
            d, _ns = build_gprog(p)  # setup results are kept by the instance: every schedule starts from a fresh one

        async def op():
            ctl = H.ctl()
            drv = H.Driver(ctl, 2 if c.get("chain") else k)
            ctl.driver = drv
            holder["drv"] = drv

            # (precreate: every coroutine object exists before the first one is awaited - `coros = [adag(a) for a in args]`)
            coros = [d(argv[i]) for i in range(k)] if c.get("precreate") else None

            async def aw(i):
                try:
                    return ("ok", await (coros[i] if coros is not None and i < k else d(argv[i])))
                except BaseException as e:  # noqa: BLE001
                    return ("exc", e)

            async def one(i):
                try:
                    return [await aw(i)]
                finally:
                    drv.active -= 1

            async def chain_of(idx):
                # one task that awaits the DAG several times in a row: its second await STARTS after its first has ended, possibly
                # while the await of the sibling task is still in flight
                try:
                    return [await aw(i) for i in idx]
                finally:
                    drv.active -= 1

            tick = asyncio.ensure_future(drv.ticker())
            drvt = asyncio.ensure_future(drv.run())
            try:
                if c.get("chain"):
                    parts = await asyncio.gather(one(0), chain_of(list(range(1, k))))
                else:
                    parts = await asyncio.gather(*[one(i) for i in range(k)])
                out = [r for part in parts for r in part]
                if c.get("probe"):
                    # one more await after everything has ended: it starts from what the DAG object holds NOW
                    drv.active = 1
                    drvt2 = asyncio.ensure_future(drv.run())
                    out += await one(k)
                    await asyncio.gather(drvt2, return_exceptions=True)
                return out
            finally:
                drv.stop = True
                drv.active = 0
                await asyncio.gather(tick, drvt, return_exceptions=True)

        return H.run_controlled(op, prefix=prefix, is_async=True)

    it = [(tuple(only_prefix), run_one(tuple(only_prefix)))] if only_prefix is not None else explore(run_one, 0, 3000)
    nex = 0
    for prefix, res in it:
        nex += 1
        acc.evaluations += 1
        acc.add_hits(res.hook_hits)
        sc.add(res)
        pfx = tuple(x for _, _, x in res.choices)
        if res.forced or res.outcome == "hang":
            # a stall is only believed when the same schedule stalls again (the first one may be the machine's doing)
            res_c = run_one(pfx)
            if not (res_c.forced or res_c.outcome == "hang"):
                acc.extra["stalls_not_confirmed"] = acc.extra.get("stalls_not_confirmed", 0) + 1
                res = res_c
        if res.outcome != "return":
            acc.violation(V("gather_failed", f"gathering {k} awaits: {res.outcome} {res.exc!r}"), c, pfx, res.trace, src)
            continue
        drv = holder["drv"]
        # per execution (serial): which argument did it see, what did its nodes receive
        by_serial = {}
        for e in res.trace:
            if e[0] == "enter":
                by_serial.setdefault(e[2], []).append(e)
        if res.forced:
            acc.violation(V("loop_blocked", "the loop thread blocked on a running node outside the awaits (it had to be completed by force): "
                            "sibling coroutines are starved"), c, pfx, res.trace, src)
        for i, (st, val) in enumerate(res.value):
            if failing is not None and i == 0:
                if st != "exc":
                    acc.violation(V("failure_swallowed", f"await #0 must raise (node {ids[failing]} fails for its argument), returned {val!r}"), c, pfx, res.trace, src)
                continue
            if st != "ok":
                acc.violation(V("await_raised", f"await #{i} raised {val!r}"), c, pfx, res.trace, src)
                continue
            setup_idx = {j for j, nd in enumerate(p.nodes) if nd.setup}
            sers = {t.serial for j, t in enumerate(val) if isinstance(t, Tok) and j not in setup_idx} if isinstance(val, tuple) else set()
            if len(sers) != 1 or not isinstance(val, tuple) or len(val) != len(ids) or any(not isinstance(t, Tok) or t.label != ids[j] for j, t in enumerate(val)):
                acc.violation(V("await_wrong_value", f"await #{i} (argument {argv[i]}) returned {val!r}"), c, pfx, res.trace, src)
                continue
            s = sers.pop()
            ent = by_serial.get(s, [])
            # non-setup nodes: exactly once in this execution; a setup node runs in this execution or was computed by a sibling
            if sorted(e[1] for e in ent if ids.index(e[1]) not in setup_idx) != sorted(ids[j] for j in range(len(ids)) if j not in setup_idx):
                acc.violation(V("await_wrong_nodes", f"await #{i}: execution {s} entered {[e[1] for e in ent]}"), c, pfx, res.trace, src)
            for e in ent:
                j = ids.index(e[1])
                want = tuple(argv[i] if ed.src < 0 else (val[ed.src] if ed.src in setup_idx else Tok(ids[ed.src], s)) for ed in p.nodes[j].edges)
                if tuple(e[5]) != want:
                    acc.violation(V("await_foreign_value", f"await #{i} (argument {argv[i]}): {e[1]} received {e[5]!r}, expected {want!r}"), c, pfx, res.trace, src)
        # an await that STARTS after another await of the same object has ENDED finds the setup results stored: it neither runs a setup
        # node again nor sees another value than every later await (the stored value never changes)
        setup_idx = {j for j, nd in enumerate(p.nodes) if nd.setup}
        if setup_idx and all(st == "ok" and isinstance(val, tuple) and len(val) == len(ids) for st, val in res.value):
            late = ([2] if c.get("chain") else []) + ([k] if c.get("probe") else [])
            for i in late:
                val = res.value[i]
                s_i = next((t.serial for j, t in enumerate(val[1]) if isinstance(t, Tok) and j not in setup_idx), None)
                again = [e[1] for e in by_serial.get(s_i, []) if ids.index(e[1]) in setup_idx]
                if again:
                    acc.violation(V("setup_rerun_by_late_await", f"await #{i} started after another await had ended and entered the setup node(s) {again} again"),
                                  c, pfx, res.trace, src)
            if len(late) == 2:
                a_, b_ = res.value[late[0]][1], res.value[late[1]][1]
                if any(a_[j] != b_[j] for j in setup_idx):
                    acc.violation(V("stored_setup_result_changed", f"await #{late[0]} saw the setup results {[a_[j] for j in sorted(setup_idx)]}, the later await #{late[1]} "
                                    f"{[b_[j] for j in sorted(setup_idx)]}: the stored value changed"), c, pfx, res.trace, src)
        # liveness: while an async-thread node was in flight the ticker made progress
        for (nid, s, what), t in drv.tick_at.items():
            if what == "enter" and nid in ids and p.nodes[ids.index(nid)].res == "a":
                t2 = drv.tick_at.get((nid, s, "exit"))
                if t2 is not None and t2 - t < 1:
                    acc.violation(V("loop_blocked", f"async-thread node {nid} ran from tick {t} to tick {t2}: the event loop served no other coroutine meanwhile"),
                                  c, pfx, res.trace, src)
        if len(res.choices) >= 1:
            acc.mark_nontrivial((repr(c), pfx))
        acc.stall(res)
    H.FAIL_IF_ARG.clear()
    if nex >= 3000:
        acc.extra["gather_caps"] = acc.extra.get("gather_caps", 0) + 1
    s_, t_ = sc.counts()
    acc.states += s_
    acc.transitions += t_
    if acc.cases <= 2:
        acc.sample({"case": c, "schedules": nex})


def overlap_subset(k: int = 2):
    """Two awaits of ONE AsyncDAG object in flight at the same time (every choice of the driver): the slice that the checks about
    values (C01), dependencies (C02), entry counts (C03) and call-to-call state (C15) run as well."""
    for n in (2, 3):
        for es in shapes(n):
            if n == 3 and (len(es) != 2 or k > 2):
                continue
            for res in (("at" * n)[:n], ("ta" * n)[:n], "a" * n, ("am" * n)[:n]):
                yield dict(kind="gather", n=n, es=es, res=res, mc=2, k=k)
                if k == 3 and n == 2 and res in ("aa", "at"):
                    # await A || (await B ; await C): C starts after B has ended, while A may still be in flight
                    yield dict(kind="gather", n=n, es=es, res=res, mc=2, k=3, chain=True)


def failing_subset():
    """Two awaits of one AsyncDAG in flight, the first one fails (a root node raises for ITS argument): the sibling await is unaffected."""
    for n in (2, 3):
        for es in shapes(n):
            if len(es) > 1:
                continue
            for res in (("ma" * n)[:n], ("am" * n)[:n], ("ta" * n)[:n], "a" * n):
                for f in range(n):
                    if any(e[1] == f for e in es):
                        continue
                    yield dict(kind="gather", n=n, es=es, res=res, mc=2, k=2, failing=f)


CACHE_SETUP_SRC = '''
from tawazi import xn, dag
import twzmc.harness as H

@xn(setup=True)
def s1(*a, **k):
    return H.lib_call("s1", lambda: 100, a, k)

@xn(setup=True)
def s2(*a, **k):
    return H.lib_call("s2", lambda: 2000, a, k)

@xn
def f(*a, **k):
    return H.lib_call("f", lambda p, x: p + x, a, k)

@xn
def g(*a, **k):
    return H.lib_call("g", lambda q, y: q + y, a, k)

@dag(is_async={is_async})
def d(x):
    a = f(s1(), x)
    b = g(s2(), a)
    return a, b
'''


def cache_setup_case(acc, c):
    """Both flavours, the same history on one object: an executor that caches a part (s1, f), an executor restarted from that file that
    runs the other setup node (s2) for the first time, then a plain call: every step enters the same nodes in both flavours, and the plain
    call finds BOTH setup results recorded (it enters no setup node)."""
    import os

    from ..build import exec_source
    acc.cases += 1
    per_flavour = {}
    for is_async in (False, True):
        src = CACHE_SETUP_SRC.format(is_async=is_async)
        d = exec_source(src)["d"]
        path = os.path.join(os.environ.get("VERIF_TMP", "/tmp"), f"c17-cache-{os.getpid()}.pkl")
        steps = []

        def run(make):
            if is_async:
                async def op():
                    return await make()
            else:
                def op():
                    return make()
            r = H.run_controlled(op, is_async=is_async)
            acc.evaluations += 1
            steps.append((r.outcome, repr(r.value) if r.outcome == "return" else repr(r.exc), sorted(e[1] for e in r.trace if e[0] == "enter")))
        run(lambda: d.executor(target_nodes=["f"], cache_in=path)(1))
        run(lambda: d.executor(from_cache=path)(1))
        run(lambda: d(1))
        run(lambda: d(5))
        try:
            os.remove(path)
        except OSError:
            pass
        per_flavour[is_async] = steps
        acc.mark_nontrivial(("cache_setup", is_async))
        want = [("return", ["f", "s1"]), ("return", ["g", "s2"]), ("return", ["f", "g"]), ("return", ["f", "g"])]
        for i, ((oc, val, ent), (woc, went)) in enumerate(zip(steps, want)):
            if oc != woc or ent != went:
                acc.violation(V("setup_result_not_recorded" if i >= 2 else "cache_history_step", f"is_async={is_async}: step {i + 1} of [cache s1,f | restart from the file | call | call] "
                                f"gave {oc} {val} and entered {ent}, expected to enter {went}", flavour=is_async, step=i + 1), dict(c, is_async=is_async, step=i + 1), (), None, src)
    if [x[:2] for x in per_flavour[False]] != [x[:2] for x in per_flavour[True]]:
        acc.violation(V("flavours_differ", f"the same history gives {per_flavour[False]} as DAG and {per_flavour[True]} as AsyncDAG"), dict(c), (), None, CACHE_SETUP_SRC)


def async_hist_cases(tier):
    """sequences of awaits on ONE AsyncDAG object (arguments given / defaulted, setup() in between, a setup node still pending at the
    first await): judged like the histories of C15, whose sync flavour is the reference behaviour"""
    ops = (0, 1, 12, 4, 6)  # call(a1,a2), call(a5), setup(), e=executor(), e(a1,a2)
    for name in ("setup", "linear"):
        for depth in (1, 2, 3):
            for hist in itertools.product(ops, repeat=depth):
                if depth == 3 and (name != "setup" or 0 not in hist or 1 not in hist):
                    continue
                yield dict(kind="async_hist", dag=name, is_async=True, hist=list(hist))


def cases(tier):
    return itertools.chain([dict(kind="cache_setup")], gather_cases(tier), flavour_cases(tier), async_hist_cases(tier))


def run_shard(tier, k, n, acc):
    from ..monitors import mon_c02, mon_c03, mon_c09
    from ..sched import run_case
    for c in shard_iter(cases(tier), k, n, acc):
        if c["kind"] == "cache_setup":
            cache_setup_case(acc, c)
        elif c["kind"] == "async_hist":
            from . import c15
            c15.run_hist(acc, {k_: c[k_] for k_ in ("dag", "is_async", "hist")})
        elif c["kind"] == "flavour":
            run_flavour(acc, c)
        elif c["kind"] == "async_sched":
            run_case(acc, c, [mon_c02, mon_c03, mon_c09], lambda view: tuple(e[1] for e in view.trace if e[0] in ("enter", "exit")))
        else:
            run_gather(acc, c)


def replay(v):
    from ..acc import Acc
    a = Acc(ID, 0, 1, 600)
    c = v["case"]
    if c.get("kind") == "async_sched":
        from ..monitors import mon_c02, mon_c03, mon_c09
        from ..sched import replay_case
        res, viols = replay_case(c, [mon_c02, mon_c03, mon_c09], v["prefix"])
        return viols, res.trace
    if c.get("kind") == "cache_setup":
        cache_setup_case(a, dict(kind="cache_setup"))
        return a.violations, None
    if "hist" in c and "dag" in c:
        from . import c15
        c15.run_hist(a, {k_: c[k_] for k_ in ("dag", "is_async", "hist")})
    elif c.get("kind") == "gather":
        run_gather(a, c, only_prefix=v["prefix"])
    else:
        run_flavour(a, {k: c[k] for k in c if k not in ("is_async", "args")})
    return a.violations, None
