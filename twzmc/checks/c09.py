"""C09 - every execution terminates, whatever order nodes finish in."""
from __future__ import annotations

import itertools

from ..gprog import seq_menu, shapes
from ..monitors import V, mon_c09
from ..sched import replay_case, run_case
from ..spaces import all_res, kinds_rotating, prog_of, shard_iter, single_selections
from .c03 import up_closed_sets

ID = "C09"
BUDGET = {"quick": 240, "thorough": 900}
MONITORS = [mon_c09]


def fail_sets(n, pairs=True):
    out = [()]
    out += [(i,) for i in range(n)]
    if pairs:
        out += list(itertools.combinations(range(n), 2))
    return out


def cases(tier: str):
    q = tier == "quick"
    yield dict(special="cycles", nmax=3 if q else 4)
    yield dict(special="runtime_nested")
    # A. resources x sequential x failing nodes x (flag chains: every flag source falsy)
    for n in (1, 2, 3):
        for es in shapes(n):
            for kinds in ("pos", "rot"):
                es4 = [(i, j, "pos", ()) for (i, j) in es] if kinds == "pos" else kinds_rotating(es, 4)
                if kinds == "rot" and es4 == [(i, j, "pos", ()) for (i, j) in es]:
                    continue
                falsys = [[]] if kinds == "pos" else [[], [[i, list(p)] for (i, j, k, p) in es4 if k == "flag"]]
                for falsy in falsys:
                    for res in all_res(n):
                        for seq in seq_menu(n):
                            for mc in (1, 2, 3):
                                for fs in fail_sets(n):
                                    if q and len(fs) == 2 and (mc == 3 or kinds == "rot"):
                                        continue
                                    for is_async in (False, True):
                                        if q and is_async and (kinds == "rot" or len(fs) == 2):
                                            continue
                                        yield dict(n=n, es=es4, falsy=falsy, res=res, seq=seq, mc=mc, fail={i: "V" for i in fs},
                                                   is_async=is_async, ties=1 if q else None)
    n = 4
    for es in shapes(n):
        if q and len(es) > 4:
            continue
        es4 = kinds_rotating(es, 4)
        falsy_all = [[i, list(p)] for (i, j, k, p) in es4 if k == "flag"]
        for falsy in ([[]] + ([falsy_all] if falsy_all else [])):
            for res in ("tttt", "aaaa", "tata", "mtma", "tmat"):
                for seq in (seq_menu(n)[:2] + seq_menu(n)[-1:] if q else seq_menu(n)):
                    for mc in (1, 2):
                        for fs in ([()] + [(i,) for i in range(n)] if q else fail_sets(n)):
                            if q and fs and seq != seq_menu(n)[0]:
                                continue
                            yield dict(n=n, es=es4, falsy=falsy, res=res, seq=seq, mc=mc, fail={i: "V" for i in fs}, is_async=False,
                                       ties=0 if q else 1)
    # B. executor calls with single selections, setup() calls
    for n in (2, 3):
        for es in shapes(n):
            base = dict(n=n, es=es)
            for sel in single_selections(prog_of(base))[1:]:
                for res in ("t" * n, ("ta" * n)[:n], "m" * n):
                    for mc in (1, 2):
                        for seq in seq_menu(n)[:2]:
                            yield dict(base, res=res, mc=mc, seq=seq, sel=sel, is_async=False, ties=1)
            for st in up_closed_sets(n, es):
                for res in ("t" * n, ("am" * n)[:n]):
                    for mc in (1, 2):
                        for is_async in (False, True):
                            yield dict(base, setup=st, res=res, mc=mc, sel={"setup": True, "T": None}, is_async=is_async, ties=1)


RUNTIME_NESTED_SRC = '''
from tawazi import xn, dag, Resource
import twzmc.harness as H

@xn(resource=Resource.{inner_res})
def leaf(*a, **k):
    return H.node_body("leaf", a, k)

@xn(setup={with_setup})
def prep_inner(*a, **k):
    return H.node_body("prep_inner", a, k)

@xn(setup={with_setup})
def prep_outer(*a, **k):
    return H.node_body("prep_outer", a, k)

@dag(max_concurrency={inner_mc})
def inner_dag(v):
    p = prep_inner()
    return leaf(v, p)

@xn(resource=Resource.{caller_res})
def caller(*a, **k):
    # a node function that runs another DAG at RUN time (not a nested description)
    H.node_body("caller", a, k)
    return ("inner result", inner_dag(a[0] if a else 0))

@xn(resource=Resource.thread)
def other(*a, **k):
    return H.node_body("other", a, k)

@dag(max_concurrency={mc}, is_async={is_async})
def outer(x):
    q = prep_outer()
    r = caller(x, q)
    o = other(x)
    return r, o
'''


RUNTIME_RECURSION_SRC = '''
from tawazi import xn, dag, Resource
import twzmc.harness as H

@xn(resource=Resource.{caller_res})
def level(*a, **k):
    # finite run-time recursion: the node calls the DAG it belongs to (another execution of the SAME DAG object)
    H.node_body("level", a, k)
    n = a[0]
    return 0 if n == 0 else 1 + countdown(n - 1)

@xn(resource=Resource.{other_res})
def other(*a, **k):
    return H.node_body("other", a, k)

@dag(max_concurrency={mc})
def countdown(n):
    o = other(n)
    return level(n)
'''


def runtime_recursion_case(acc, c):
    """Executions of one DAG object may overlap (a node calls its own DAG with a smaller argument): each has its own workers."""
    from .. import harness as H
    from ..build import exec_source
    for caller_res in ("thread", "async_thread"):
        for other_res in ("thread", "main_thread"):
            for mc in (1, 2):
                for depth in (1, 2, 3):
                    src = RUNTIME_RECURSION_SRC.format(caller_res=caller_res, other_res=other_res, mc=mc)
                    d = exec_source(src)["countdown"]
                    res = H.run_controlled(lambda: d(depth), is_async=False, watchdog=8.0)
                    if res.outcome in ("hang", "spin") or res.forced:  # believed only when it happens twice
                        d = exec_source(src)["countdown"]
                        res = H.run_controlled(lambda: d(depth), is_async=False, watchdog=8.0)
                    acc.evaluations += 1
                    acc.mark_nontrivial(("runtime_recursion", caller_res, other_res, mc, depth))
                    case = dict(c, recursion=True, caller_res=caller_res, other_res=other_res, mc=mc, depth=depth)
                    if res.outcome in ("hang", "spin") or res.forced:
                        acc.violation(V("hang", f"a {caller_res} node that calls its own DAG at run time (depth {depth}, max_concurrency={mc}) does not terminate",
                                        nested=True), case, (), res.trace, src)
                        acc.stall(res)
                    elif res.outcome != "return":
                        acc.violation(V("internal_error", f"run-time recursion raised {res.exc!r}", exc=type(res.exc).__name__, nested=True), case, (), res.trace, src)
                    elif res.value != depth:
                        acc.violation(V("wrong_value", f"run-time recursion of depth {depth} returned {res.value!r}", nested=True), case, (), res.trace, src)


def runtime_nested_case(acc, c):
    """A node function may itself run a DAG at run time; the outer call still has to terminate (no pool starvation)."""
    from .. import harness as H
    from ..build import exec_source
    acc.cases += 1
    runtime_recursion_case(acc, c)
    # (a main-thread caller cannot run a sync DAG: the scheduler itself runs inside asyncio.run on that thread - excluded)
    for caller_res in ("thread", "async_thread"):
        for inner_res in ("thread", "async_thread", "main_thread"):
            for mc in (1, 2):
              for with_setup in (False, True):  # setup nodes still pending in the calling AND in the called DAG
                for is_async in (False, True):
                    src = RUNTIME_NESTED_SRC.format(caller_res=caller_res, inner_res=inner_res, mc=mc, inner_mc=1, is_async=is_async, with_setup=with_setup)
                    ns = exec_source(src)
                    d = ns["outer"]
                    if is_async:
                        async def op():
                            return await d(1)
                    else:
                        def op():
                            return d(1)
                    res = H.run_controlled(op, is_async=is_async, watchdog=8.0)
                    if res.outcome in ("hang", "spin") or res.forced:  # believed only when it happens twice
                        d = exec_source(src)["outer"]
                        res = H.run_controlled(op, is_async=is_async, watchdog=8.0)
                    acc.evaluations += 1
                    acc.mark_nontrivial(("runtime_nested", caller_res, inner_res, mc, is_async, with_setup))
                    case = dict(c, caller_res=caller_res, inner_res=inner_res, mc=mc, is_async=is_async, with_setup=with_setup)
                    if res.outcome in ("hang", "spin") or res.forced:
                        acc.violation(V("hang", f"outer DAG whose {caller_res} node runs a DAG at run time ({inner_res} inner node, max_concurrency={mc}, is_async={is_async}) does not terminate",
                                        nested=True), case, (), res.trace, src)
                        acc.stall(res)
                    elif res.outcome != "return":
                        acc.violation(V("internal_error", f"run-time nested DAG call raised {res.exc!r}", exc=type(res.exc).__name__, nested=True), case, (), res.trace, src)


def cycles_case(acc, c):
    """Build-time clause: every directed graph with a cycle is refused, every acyclic one accepted."""
    import networkx as nx
    from tawazi import DAG
    from tawazi._helpers import StrictDict
    from tawazi.node import ExecNode, UsageExecNode

    acc.cases += 1
    for n in range(1, c["nmax"] + 1):
        pairs = [(i, j) for i in range(n) for j in range(n)]
        if n == 4:
            pairs = [(i, j) for (i, j) in pairs if i != j]
        for k in range(len(pairs) + 1):
            for es in itertools.combinations(pairs, k):
                g = nx.DiGraph()
                g.add_nodes_from(range(n))
                g.add_edges_from(es)
                cyclic = not nx.is_directed_acyclic_graph(g)
                xns = [ExecNode(id_=f"c{j}", exec_function=lambda *a: None, args=[UsageExecNode(f"c{i}") for (i, jj) in es if jj == j])
                       for j in range(n)]
                acc.evaluations += 1
                try:
                    DAG(qualname="cyc", results=StrictDict({}), exec_nodes=StrictDict({x.id: x for x in xns}), input_uxns=[],
                        return_uxns=[], max_concurrency=1)
                    refused = False
                except Exception:  # noqa: BLE001
                    refused = True
                if cyclic:
                    acc.mark_nontrivial(("cyc", n, es))
                if refused != cyclic:
                    acc.violation(V("cycle_check", f"digraph {es} on {n} nodes (cyclic={cyclic}) was {'refused' if refused else 'accepted'}",
                                    cyclic=cyclic), dict(c, n=n, es=es))


def nontrivial(view):
    # >= 2 nodes were in flight at the same time, or a node failed / was deactivated while others took part
    inside = 0
    for e in view.trace:
        if e[0] == "enter":
            inside += 1
            if inside >= 2:
                return tuple(x[:2] for x in view.trace if x[0] in ("enter", "exit"))
        elif e[0] == "exit":
            inside -= 1
            if e[3] == "raise" and len(view.prog.nodes) > 1:
                return tuple(x[:2] for x in view.trace if x[0] in ("enter", "exit"))
    if "deact" in view.status.values():
        return tuple(x[:2] for x in view.trace if x[0] in ("enter", "exit", "pick"))
    return None


def all_cases(tier):
    import itertools

    from ..spaces import cross_families, foreign_quick_cases
    its = [cases(tier), cross_families(tier)]
    if tier != "quick":
        its.append(foreign_quick_cases("c09"))
    return itertools.chain(*its)


def run_shard(tier, k, n, acc):
    from . import c17
    for c in shard_iter(itertools.chain(all_cases(tier), c17.overlap_subset(2), c17.overlap_subset(3)), k, n, acc):
        if c.get("kind") == "gather":
            c17.run_gather(acc, c)  # overlapping awaits of one AsyncDAG object: every one of them terminates (a spin / hang is reported)
        elif c.get("special") == "runtime_nested":
            runtime_nested_case(acc, c)
        elif c.get("special"):
            cycles_case(acc, c)
        else:
            run_case(acc, c, MONITORS, nontrivial)


def replay(v):
    if v["case"].get("kind") == "gather":
        from ..acc import Acc
        from . import c17
        a = Acc(ID, 0, 1, 600)
        c17.run_gather(a, v["case"], only_prefix=v["prefix"])
        return a.violations, None
    if v["case"].get("special"):
        from ..acc import Acc
        a = Acc(ID, 0, 1, 600)
        from ..acc import StopShard
        try:
            (runtime_nested_case if v["case"].get("special") == "runtime_nested" else cycles_case)(a, v["case"])
        except StopShard:
            pass  # enough stalled executions seen
        return a.violations, None
    res, viols = replay_case(v["case"], MONITORS, v["prefix"])
    return viols, res.trace
