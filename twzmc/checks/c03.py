"""C03 - each selected active node runs exactly once per execution, nothing else runs."""
from __future__ import annotations

import itertools

from ..gprog import res_menu, shapes
from ..monitors import mon_c03
from ..sched import replay_case, run_case, selection_set
from ..spaces import flag_falsy_variants, kinds_all, kinds_rotating, prog_of, shard_iter, single_selections

ID = "C03"
BUDGET = {"quick": 240, "thorough": 600}
MONITORS = [mon_c03]


def down_closed_sets(n, es):
    """non-empty sets of nodes closed under 'successor' (valid debug placements)."""
    succ = {i: {j for (a, j) in [(e[0], e[1]) for e in es] if a == i} for i in range(n)}
    for k in range(1, n + 1):
        for s in itertools.combinations(range(n), k):
            ss = set(s)
            if all(succ[i] <= ss for i in ss):
                yield list(s)


def up_closed_sets(n, es):
    """non-empty sets of nodes closed under 'predecessor' (valid setup placements)."""
    pred = {j: {a for (a, b) in [(e[0], e[1]) for e in es] if b == j} for j in range(n)}
    for k in range(1, n + 1):
        for s in itertools.combinations(range(n), k):
            ss = set(s)
            if all(pred[i] <= ss for i in ss):
                yield list(s)


def cases(tier: str):
    q = tier == "quick"
    # A. whole DAG, every dependency form, flags truthy and falsy
    for n in (1, 2, 3):
        for es in shapes(n):
            for es4 in kinds_all(es):
                for falsy in flag_falsy_variants(es4):
                    for res in res_menu(n)[:4]:
                        for mc in (1, 2, 3):
                            for is_async in (False, True):
                                yield dict(n=n, es=es4, falsy=falsy, res=res, mc=mc, is_async=is_async, ties=1 if q else None)
    # A4. N=4 (thorough: N=5 with <= 4 edges): rotating dependency forms, every subset of flags falsy
    for n in ((4,) if q else (4, 5)):
        for es in shapes(n):
            if (n == 4 and q and len(es) > 4) or (n == 5 and len(es) > 4):
                continue
            for off in ((4,) if q else (0, 2, 4)):
                es4 = kinds_rotating(es, off)
                for falsy in flag_falsy_variants(es4):
                    for res in (res_menu(n)[:2] if q else res_menu(n)[:4]):
                        for mc in (2, 3):
                            yield dict(n=n, es=es4, falsy=falsy, res=res, mc=mc, is_async=False, ties=0)
    # B. selections (single target / root / exclude)
    for n in (2, 3, 4):
        for es in shapes(n):
            for off in ((0,) if (q or n == 4) else (0, 3)):
                es4 = kinds_rotating(es, off) if n < 4 else [(i, j, "pos", ()) for (i, j) in es]
                for falsy in flag_falsy_variants(es4):
                    base = dict(n=n, es=es4, falsy=falsy)
                    p = prog_of(base)
                    for sel in single_selections(p)[1:]:
                        for res in (("t" * n, ("ta" * n)[:n]) if n < 4 else ("t" * n,)):
                            for mc in ((1, 2) if n < 4 else (2,)):
                                yield dict(base, res=res, mc=mc, sel=sel, is_async=False, ties=0 if n == 4 else 1)
    # B2. selections by a string that is the TAG of node 1 and the ID of node 0 (a string is a tag first)
    for n in (2, 3):
        for es in shapes(n):
            base = dict(n=n, es=[(i, j, "pos", ()) for (i, j) in es], tags={1: "n0"})
            p = prog_of(base)
            for sel in single_selections(p)[1:]:
                for mc in (1, 2):
                    yield dict(base, res="t" * n, mc=mc, sel=dict(sel, alias="tag_eq_id"), is_async=False, ties=0)
    # B3. two targets / exclusions / roots named descendant-first (the order of an alias list must not matter)
    for n in (3, 4):
        for es in shapes(n):
            if n == 4 and len(es) > 4:
                continue
            base = dict(n=n, es=[(i, j, "pos", ()) for (i, j) in es])
            for i in range(n):
                for j in range(i + 1, n):
                    for key in ("T", "X", "R"):
                        sel = {"T": None, "X": None, "R": None}
                        sel[key] = [j, i]
                        try:
                            selection_set(prog_of(base), sel)
                        except ValueError:
                            continue  # outside the quantifier (e.g. a non-root named as root)
                        yield dict(base, res="t" * n, mc=2, sel=sel, is_async=False, ties=0)
    # C. one decorated function used on several call sites
    for n in (2, 3):
        for es in shapes(n):
            for fn in ([["f"] * n] + ([["f", "f", "g"], ["g", "f", "f"], ["f", "g", "f"]] if n == 3 else [])):
                for res in ("t" * n, ("ta" * n)[:n]):
                    for mc in (1, 2, 3):
                        yield dict(n=n, es=kinds_rotating(es, 0), falsy=[], fn=fn, res=res, mc=mc, is_async=False, ties=1 if q else None)
    # D. debug nodes, flag off and on, whole DAG
    for n in (2, 3, 4):
        for es in shapes(n):
            if n == 4 and q and len(es) > 3:
                continue
            for dbg in down_closed_sets(n, es):
                if len(dbg) == n:
                    continue
                for debug_on in (False, True):
                    for mc in (1, 2):
                        yield dict(n=n, es=es, debug=dbg, debug_on=debug_on, res="t" * n, mc=mc, is_async=False, ties=0)
    # E0. an executor constructed BEFORE dag.setup() ran, executed afterwards: the setup nodes must not run again
    for n in (2, 3):
        for es in shapes(n):
            for st in up_closed_sets(n, es):
                if len(st) == n:
                    continue
                for is_async in (False, True):
                    yield dict(n=n, es=es, setup=st, deferred_setup=True, res=("tm" * n)[:n], mc=2, is_async=is_async, ties=0)
    # E. setup nodes already executed by earlier calls on the same instance
    for n in (2, 3):
        for es in shapes(n):
            for st in up_closed_sets(n, es):
                for warm in (0, 1, 2):
                    for mc in (1, 2):
                        for is_async in (False, True):
                            yield dict(n=n, es=es, setup=st, warm=warm, res=("tm" * n)[:n], mc=mc, is_async=is_async, ties=0)


def nontrivial(view):
    # an execution in which some node of the DAG must NOT run (unselected / deactivated / pre-computed / disabled debug)
    # or a reused function, together with at least one node that must run
    st = set(view.status.values())
    if "run" in st and (len(st) > 1 or any(nd.fn for nd in view.prog.nodes)):
        return tuple(e[1] for e in view.trace if e[0] in ("enter",))
    return None


def all_cases(tier):
    import itertools

    from ..spaces import cross_families, foreign_quick_cases
    its = [cases(tier), cross_families(tier)]
    if tier != "quick":
        its.append(foreign_quick_cases("c03"))
    return itertools.chain(*its)


def nested_cases():
    """call sites inside DAGs called several times inside the DAG: each copy runs exactly when ITS flag says so"""
    from . import c10
    for name, body, rspec, subs in c10.inner_flag_programs():
        yield dict(kind="nested", prog={"name": "main", "params": [["x", "<nodefault>"], ["y", 4]], "body": body, "ret": rspec, "subs": subs})


def run_nested(acc, c):
    from ..prog import run_program
    from .. import ir
    has_setup = any(fn in repr(c["prog"]) for fn in ir.SETUP_FNS)  # setup nodes run once per DAG object, not once per call
    run_program(acc, {"prog": c["prog"], "kind": "nested"}, c["prog"], [(0,), (3,), (0, 0), (3, 0)], ["mc1", "mc3"], (False, True), explore_all=False,
                stateful_setup=has_setup)
    acc.mark_nontrivial(("nested", repr(c["prog"]["body"])[:300]))
    acc.mark_nontrivial(("nested2", repr(c["prog"]["ret"])[:300]))


def run_shard(tier, k, n, acc):
    import itertools
    from . import c17
    for c in shard_iter(itertools.chain(all_cases(tier), nested_cases(), c17.overlap_subset()), k, n, acc):
        if c.get("kind") == "gather":
            c17.run_gather(acc, c)  # two awaits of one AsyncDAG object overlap: each execution enters every node exactly once
        elif c.get("kind") == "nested":
            run_nested(acc, c)
        else:
            run_case(acc, c, MONITORS, nontrivial)


def replay(v):
    c = v["case"]
    if c.get("kind") == "gather":
        from ..acc import Acc
        from . import c17
        a = Acc(ID, 0, 1, 600)
        c17.run_gather(a, c, only_prefix=v["prefix"])
        return a.violations, None
    if c.get("kind") == "nested":
        from .. import harness as H
        from .. import ir
        from ..acc import Acc
        from ..prog import build, compare
        a = Acc(ID, 0, 1, 600)
        if any(fn in repr(c["prog"]) for fn in ir.SETUP_FNS):
            run_nested(a, {"prog": c["prog"]})  # setup nodes: the outcome of a call depends on the calls before it
            return a.violations, None
        from ..prog import replay_built
        return replay_built(a, v)
    if v["kind"] == "debug_selection_depends_on_declaration_order" or c.get("deferred_setup"):
        from ..acc import Acc
        a = Acc(ID, 0, 1, 600)
        run_case(a, c, MONITORS, nontrivial)  # the oracle compares executor graphs before anything runs
        return a.violations, None
    res, viols = replay_case(c, MONITORS, v["prefix"])
    return viols, res.trace
