"""C12 - target / exclude / root selection executes exactly the documented closure."""
from __future__ import annotations

import itertools

from .. import harness as H
from ..build import build_gprog
from ..gprog import shapes
from ..selcheck import evaluate, subsets_upto
from ..spaces import prog_of, shard_iter
from .c03 import up_closed_sets

ID = "C12"
BUDGET = {"quick": 240, "thorough": 900}


def variants(n, es):
    """Program variants: plain; const-input node; setup nodes (fresh / pre-computed); tags."""
    yield dict(n=n, es=es, var="plain")
    if es and n >= 2:
        from ..spaces import kinds_rotating
        es4 = [e for e in kinds_rotating(es, 2)]
        es4 = [(i, j, ("pos" if k == "flag" else k), p) for (i, j, k, p) in es4]  # indexed positional / keyword uses, no flags
        yield dict(n=n, es=es4, var="kinds")
    if n >= 2:
        # node 0 has only a constant input -> it is not a root
        yield dict(n=n, es=es, var="const", consts={0: [7]})
    for st in list(up_closed_sets(n, es))[:3]:
        if len(st) < n:
            yield dict(n=n, es=es, var="setup", setup=st, warm=0)
            yield dict(n=n, es=es, var="setup", setup=st, warm=1)


def alias_cases(n):
    """(tags, form) : how index sets are written as aliases."""
    yield {}, "id"
    yield {}, "ref"
    yield {i: f"t{i}" for i in range(n)}, "tag"
    if n >= 2:
        yield {0: ("t0", "S"), 1: ("t1", "S")}, "shared"  # 'S' names nodes 0 and 1
        yield {1: "n0"}, "tag_eq_id"  # node 1 carries a tag equal to node 0's id: the tag wins
        # tags / ids that are proper substrings of another node's single string tag (must NOT match)
        yield ({1: "xn0y", 0: "t0"} if n == 2 else {1: "xn0y", 0: "t0", 2: "t0z"}), "substr"


def write_aliases(idx, tags, form, n):
    if idx is None:
        return None
    if form == "id":
        return [f"n{i}" for i in idx]
    if form == "ref":
        return [["ref", i] for i in idx]
    if form == "tag":
        return [f"t{i}" for i in idx]
    if form == "shared":
        # write {0,1} as the shared tag when both are in
        s = set(idx)
        out = []
        if {0, 1} <= s:
            out.append("S")
            s -= {0, 1}
        return out + [f"n{i}" if i > 1 else f"t{i}" for i in sorted(s)]
    if form == "substr":
        # node 0 by its id 'n0' (a substring of node 1's tag), node 1 by its tag, node 2 by its tag 't0z' (which contains node 0's tag)
        return [{0: "n0", 1: "xn0y", 2: "t0z"}.get(i, f"n{i}") for i in idx] if len(idx) != 1 or idx[0] != 0 else ["t0"]
    if form == "tag_eq_id":
        # the string 'n0' resolves to node 1 (tag wins over id); node 0 is written by reference
        return [("n0" if i == 1 else (["ref", 0] if i == 0 else f"n{i}")) for i in idx]
    raise ValueError(form)


def cases(tier: str):
    q = tier == "quick"
    for n in (1, 2, 3, 4):
        kmax = None if (n <= 3 or not q) else 2
        for es in shapes(n):
            for var in variants(n, es):
                for tags, form in alias_cases(n):
                    if var["var"] not in ("plain",) and form not in ("id",):
                        continue
                    if n == 4 and form != "id" and q:
                        continue
                    if n == 4 and var["var"] == "setup" and q:
                        continue
                    yield dict(var, tags=tags, form=form, kmax=kmax)
    if not q:
        n = 5
        for es in shapes(n):
            if len(es) > 5:
                continue
            yield dict(n=n, es=es, var="plain", tags={}, form="id", kmax=1)
    yield dict(n=2, es=[(0, 1)], var="unknown", tags={}, form="id", kmax=None)


def run_one_case(acc, c):
    p = prog_of(dict(c, res="t" * c["n"], mc=1))
    n = c["n"]
    acc.cases += 1
    has_setup = bool(c.get("setup"))
    d = ns = None
    pre = {}
    stats = {}

    def fresh():
        nonlocal d, ns, pre
        d, ns = build_gprog(p)
        pre = {}
        for _ in range(c.get("warm", 0)):
            r = H.run_controlled(lambda: d())
            for e in r.trace:
                if e[0] == "enter":
                    i = p.ids().index(e[1])
                    if p.nodes[i].setup and i not in pre:
                        pre[i] = e[2]

    fresh()
    if c["var"] == "unknown":
        for R, X, T in ((["zz"], None, None), (None, ["zz"], None), (None, None, ["zz"]), (None, None, ["n1", "n9"])):
            k = evaluate(acc, c, d, ns, p, R, X, T)
            acc.mark_nontrivial((repr(c), repr((R, X, T))))
        return
    ids = p.ids()
    triples = [(Ri, Xi, Ti) for Ri in subsets_upto(n, c["kmax"]) for Xi in subsets_upto(n, c["kmax"]) for Ti in subsets_upto(n, c["kmax"])]
    if has_setup and not c.get("warm", 0):
        triples.reverse()  # one instance for the whole sequence: small selections (skipping setup nodes) first, the whole DAG last
    for Ri, Xi, Ti in triples:
        if True:
            if True:
                # setup variants: 'warm' ones are rebuilt for every selection; the others keep ONE instance over the whole
                # sequence of executors (the reference tracks which setup nodes have been computed so far)
                if has_setup and c.get("warm", 0):
                    fresh()
                R, X, T = (write_aliases(s, c["tags"], c["form"], n) for s in (Ri, Xi, Ti))
                info = {}
                k = evaluate(acc, c, d, ns, p, R, X, T, pre=pre, info=info)
                if has_setup and not c.get("warm", 0) and info.get("outcome") == "return":
                    for nid, ser in info["entered"].items():
                        i = ids.index(nid) if nid in ids else None
                        if i is not None and p.nodes[i].setup and i not in pre:
                            pre[i] = ser
                stats[k] = stats.get(k, 0) + 1
                if not has_setup and c["var"] == "plain" and any(s_ is not None and len(s_) >= 2 for s_ in (Ri, Xi, Ti)):
                    # the same selection with every alias list written in the opposite order (descendants before ancestors)
                    R2, X2, T2 = (list(reversed(x_)) if x_ is not None else None for x_ in (R, X, T))
                    k2 = evaluate(acc, c, d, ns, p, R2, X2, T2, pre=pre)
                    stats[k2] = stats.get(k2, 0) + 1
                if k in ("run", "valueerror") and (Ri is not None) + (Xi is not None) + (Ti is not None) >= 2:
                    acc.mark_nontrivial((repr(c), repr((Ri, Xi, Ti))))
    for k, v in stats.items():
        acc.extra["sel_" + k] = acc.extra.get("sel_" + k, 0) + v
    acc.states += sum(stats.values())
    acc.transitions += sum(stats.values())
    if acc.cases <= 2:
        acc.sample({"case": c, "outcomes": stats})


def deferred_cases():
    """an executor with a selection is constructed while setup nodes are still pending, dag.setup() runs, then the executor runs: it
    executes exactly the closure of its selection minus the setup nodes, which keep the values setup() computed"""
    from ..spaces import single_selections
    for n in (2, 3):
        for es in shapes(n):
            for st in up_closed_sets(n, es):
                if len(st) == n:
                    continue
                base = dict(n=n, es=[(i, j, "pos", ()) for (i, j) in es], setup=list(st))
                for sel in single_selections(prog_of(base))[1:]:
                    yield dict(base, kind="deferred", deferred_setup=True, sel=sel, res=("tm" * n)[:n], mc=2, is_async=False, ties=0)


def run_shard(tier, k, n, acc):
    import itertools

    from ..monitors import mon_c02, mon_c03
    from ..sched import run_case
    for c in shard_iter(itertools.chain(cases(tier), deferred_cases()), k, n, acc):
        if c.get("kind") == "deferred":
            run_case(acc, c, [mon_c02, mon_c03], lambda view: tuple(e[1] for e in view.trace if e[0] == "enter"))
        else:
            run_one_case(acc, c)


def replay(v):
    from ..acc import Acc
    c = v["case"]
    if c.get("kind") == "deferred":
        from ..monitors import mon_c02, mon_c03
        from ..sched import run_case
        a = Acc(ID, 0, 1, 600)
        run_case(a, c, [mon_c02, mon_c03])  # (the executor is constructed, setup() runs, the executor runs: the whole small case again)
        return a.violations, None
    a = Acc(ID, 0, 1, 600)
    p = prog_of(dict(c, res="t" * c["n"], mc=1))
    d, ns = build_gprog(p)
    pre = {}
    for _ in range(c.get("warm", 0)):
        r = H.run_controlled(lambda: d())
        for e in r.trace:
            if e[0] == "enter":
                i = p.ids().index(e[1])
                if p.nodes[i].setup and i not in pre:
                    pre[i] = e[2]
    evaluate(a, c, d, ns, p, c["R"], c["X"], c["T"], pre=pre)
    return a.violations, None
