"""C14 - a failing node fails the call, names itself, and starts nothing downstream."""
from __future__ import annotations

import itertools

from ..gprog import res_menu, shapes
from ..monitors import mon_c14
from ..sched import replay_case, run_case
from ..spaces import shard_iter

ID = "C14"
BUDGET = {"quick": 240, "thorough": 900}
MONITORS = [mon_c14]


def res_variants(n, failing, q):
    """RES* on the failing nodes, a menu on the rest."""
    rest_menu = ["t" * n, "a" * n, "m" * n, ("ta" * n)[:n], ("am" * n)[:n]]
    if q:
        rest_menu = rest_menu[:4]
    seen = set()
    for base in rest_menu:
        for fr in itertools.product("tam", repeat=len(failing)):
            r = list(base)
            for i, x in zip(failing, fr):
                r[i] = x
            r = "".join(r)
            if r not in seen:
                seen.add(r)
                yield r


def cases(tier: str):
    q = tier == "quick"
    for n in (1, 2, 3, 4):
        for es in shapes(n):
            if n == 4 and q and len(es) > 3:
                continue
            fsets = [(i,) for i in range(n)] + [p for p in itertools.combinations(range(n), 2)]
            for fs in fsets:
                if n == 4 and q and len(fs) == 2:
                    continue
                for res in res_variants(n, fs, q or n == 4):
                    for mc in ((1, 2, 3) if n < 4 else (2, 3)):
                        for is_async in (False, True):
                            if n == 4 and is_async and q:
                                continue
                            for et in ("V", "U"):
                                if et == "U" and (n > 2 or mc != 2):
                                    continue  # the exception type is orthogonal to scheduling: small slice
                                for noloc in (False, True):
                                    if noloc and (n > 2 or mc != 2):
                                        continue
                                    yield dict(n=n, es=es, fail={i: et for i in fs}, res=res, mc=mc, is_async=is_async,
                                               noloc=noloc, batch=True, ties=1 if (q or n == 4) else None)


def early_cases(tier: str):
    """a failing pooled node may have finished long before the scheduler looks at it (visible to code polling done())"""
    q = tier == "quick"
    for n in (2, 3):
        for es in shapes(n):
            if len(es) > 1:
                continue
            for f in range(n):
                for res in itertools.product("tam", repeat=n):
                    res = "".join(res)
                    if res[f] == "m" or "a" not in res and "t" not in res:
                        continue
                    for mc in (2, 3):
                        for is_async in (False, True):
                            if q and n == 3 and not is_async:
                                continue
                            yield dict(n=n, es=es, fail={f: "V"}, res=res, mc=mc, is_async=is_async, noloc=False, batch=False, ties=0, early=1)


def attr_cases(tier: str):
    """failures next to sequential candidates and priorities; failures with profiling switched on"""
    q = tier == "quick"
    for n in (2, 3, 4):
        for es in shapes(n):
            if len(es) > (1 if n >= 3 else 1):
                continue
            for f in range(n):
                for s_ in range(n):
                    if s_ == f and n > 2:
                        continue
                    for res in itertools.product("ta", repeat=n):
                        res = "".join(res)
                        if n == 4 and (q and res.count("a") != 1):
                            continue
                        for prio in (tuple(range(n - 1, -1, -1)), tuple(range(n))):
                            for is_async in (False, True):
                                yield dict(n=n, es=es, fail={f: "V"}, res=res, seq=tuple(j == s_ for j in range(n)), prio=prio, mc=3,
                                           is_async=is_async, noloc=False, batch=False, ties=0)
    for n in (1, 2, 3):
        for es in shapes(n):
            for f in range(n):
                for res in ("t" * n, "a" * n, "m" * n, ("mt" * n)[:n]):
                    for is_async in (False, True):
                        yield dict(n=n, es=es, fail={f: "V"}, res=res, mc=2, is_async=is_async, noloc=False, batch=False, ties=0, profile=True)
    # the failing node was reconfigured (config_from_dict, before or after a first successful... here: first call) - it is still named, with its location
    for n in (1, 2, 3):
        for es in shapes(n):
            if len(es) > 1:
                continue
            for f in range(n):
                for via in ("id", "tag"):
                    for res in ("t" * n, ("ma" * n)[:n]):
                        yield dict(n=n, es=es, fail={f: "V"}, res=res, seq=(False,) * n, prio=(0,) * n, mc=2, is_async=False, noloc=False, batch=False, ties=0,
                                   conf={"via": via, "init": {"seq": [False] * n, "prio": [3] * n}, "after_warm": False})


FORMS_SRC = '''
from tawazi import xn, dag, Resource
import functools

class Model:
    @xn
    def predict(self, v):
        raise ValueError("boom in predict")

    @xn(resource=Resource.main_thread)
    def score(self, v):
        raise ValueError("boom in score")

@xn
def k0():
    return 0

@xn
def ident(v):
    return v

def _fail(tag, v):
    raise ValueError("boom in " + tag)

class DomainError(Exception):
    pass

@xn
def chained(v):
    # an exception raised with an explicit cause of its own: the call's exception is still caused by THIS exception
    raise DomainError("boom in chained") from KeyError("inner detail")

failing_partial = xn(functools.partial(_fail, "partial"))
failing_lambda = xn(lambda v: 1 // 0)
model = Model()

@dag(max_concurrency={mc}, is_async={is_async})
def d(x):
    a = ident(x)
    z = k0()
    r = {expr}
    return r
'''

# expression describing the failing node, exception type of the cause
FORMS = [
    ("model.predict(a)", "ValueError"),          # decorated method called on an instance
    ("model.score(a)", "ValueError"),
    ("a / z", "ZeroDivisionError"),              # operator nodes
    ("a // z", "ZeroDivisionError"),
    ("a % z", "ZeroDivisionError"),
    ("a[5]", "TypeError"),                       # (int is not subscriptable) - indexing is resolved when the consumer runs
    ("failing_partial(a)", "ValueError"),        # call form of the decorator on objects that cannot take the @ syntax
    ("failing_lambda(a)", "ZeroDivisionError"),
    ("chained(a)", "DomainError"),               # raise ... from ...: the node's own exception is the cause, not its cause
]


def forms_case(acc, c):
    """the failing node was declared as a method, an operator on a result, a functools.partial or a lambda: the exception
    still names the node and points at the line of the describing function that created it"""
    from tawazi.errors import TawaziBaseException

    from .. import harness as H
    from ..build import exec_source
    from ..monitors import V
    acc.cases += 1
    for expr, cause_t in FORMS:
        if expr == "a[5]":
            continue  # an index is not a node: covered by C01 (reference raises as well)
        for mc in (1, 2):
            for is_async in (False, True):
                src = FORMS_SRC.format(mc=mc, is_async=is_async, expr=expr)
                ns = exec_source(src)
                d = ns["d"]
                line = next(i for i, t in enumerate(src.splitlines(), 1) if t.strip() == f"r = {expr}")
                if is_async:
                    async def op():
                        return await d(7)
                else:
                    def op():
                        return d(7)
                res = H.run_controlled(op, is_async=is_async)
                acc.evaluations += 1
                acc.mark_nontrivial(("forms", expr, mc, is_async))
                case = dict(c, expr=expr, mc=mc, is_async=is_async)
                exc = res.exc
                if res.outcome != "raise":
                    acc.violation(V("failure_swallowed", f"'{expr}' fails but the call gave {res.outcome} {res.value!r}", form=expr), case, (), res.trace, src)
                elif not isinstance(exc, TawaziBaseException):
                    acc.violation(V("bad_exception_type", f"'{expr}': call raised {type(exc).__name__}: {exc!r} instead of a tawazi exception naming the node", form=expr),
                                  case, (), res.trace, src)
                else:
                    want = f" at {ns['__src_file__']}:{line}"
                    msg = str(exc)
                    if "ExecNode " not in msg or not msg.endswith(want):
                        acc.violation(V("wrong_location", f"'{expr}': message {msg!r} does not point at{want}", form=expr), case, (), res.trace, src)
                    if type(exc.__cause__).__name__ != cause_t:
                        acc.violation(V("wrong_cause", f"'{expr}': __cause__ is {exc.__cause__!r}, expected a {cause_t}", form=expr), case, (), res.trace, src)


RETURNED_EXC_SRC = '''
from tawazi import xn, dag, Resource

class Signal(BaseException):
    pass

@xn(resource=Resource.{res})
def validator(v):
    return ValueError("returned, not raised")

@xn(resource=Resource.{res})
def signal(v):
    return Signal("returned, not raised")

@xn
def consumer(e, s):
    return ("seen", type(e).__name__, type(s).__name__)

@dag(max_concurrency={mc}, is_async={is_async})
def d(x):
    e = validator(x)
    s = signal(x)
    c = consumer(e, s)
    return e, s, c
'''


def returned_exception_case(acc, c):
    """an exception OBJECT is a legal return value: only a node that RAISES fails the call"""
    from .. import harness as H
    from ..build import exec_source
    from ..monitors import V
    acc.cases += 1
    for res_ in ("thread", "async_thread", "main_thread"):
        for mc in (1, 2):
            for is_async in (False, True):
                src = RETURNED_EXC_SRC.format(res=res_, mc=mc, is_async=is_async)
                d = exec_source(src)["d"]
                if is_async:
                    async def op():
                        return await d(7)
                else:
                    def op():
                        return d(7)
                r = H.run_controlled(op, is_async=is_async)
                acc.evaluations += 1
                acc.mark_nontrivial(("returned_exc", res_, mc, is_async))
                ok = (r.outcome == "return" and isinstance(r.value, tuple) and len(r.value) == 3 and type(r.value[0]).__name__ == "ValueError"
                      and type(r.value[1]).__name__ == "Signal" and r.value[2] == ("seen", "ValueError", "Signal"))
                if not ok:
                    acc.violation(V("returned_exception_treated_as_failure", f"{res_} nodes RETURN exception objects (nothing raises): call gave {r.outcome} {r.value!r} {r.exc!r}",
                                    resource=res_), dict(c, res=res_, mc=mc, is_async=is_async), (), r.trace, src)


def nontrivial(view):
    # a sibling (neither ancestor nor descendant of the failing node) was in flight or ready when the failure was observed
    from ..monitors import failure_observed_at

    t = failure_observed_at(view)
    if t is None:
        return None
    if len(view.enters) >= 2 or view.ready(t):
        return tuple(e[:2] for e in view.trace if e[0] in ("enter", "exit", "done"))
    return None


def run_shard(tier, k, n, acc):
    from ..spaces import cross_families, foreign_quick_cases
    its = [cases(tier), early_cases(tier), attr_cases(tier), cross_families(tier)]
    if tier != "quick":
        its.append(foreign_quick_cases("c14"))
    from . import c17
    for c in shard_iter(itertools.chain([dict(special="forms"), dict(special="returned_exc")], c17.failing_subset(), *its), k, n, acc):
        if c.get("kind") == "gather":
            c17.run_gather(acc, c)  # a failing await next to a sibling await of the same AsyncDAG: only the failing one raises
            continue
        if c.get("special") == "forms":
            forms_case(acc, c)
            continue
        if c.get("special") == "returned_exc":
            returned_exception_case(acc, c)
            continue
        run_case(acc, c, MONITORS, nontrivial)


def replay(v):
    if v["case"].get("kind") == "gather":
        from ..acc import Acc
        from . import c17
        a = Acc(ID, 0, 1, 600)
        c17.run_gather(a, v["case"], only_prefix=v["prefix"])
        return a.violations, None
    if v["case"].get("special") == "returned_exc":
        from ..acc import Acc
        a = Acc(ID, 0, 1, 600)
        returned_exception_case(a, dict(special="returned_exc"))
        return a.violations, None
    if v["case"].get("special") == "forms":
        from ..acc import Acc
        a = Acc(ID, 0, 1, 600)
        forms_case(a, dict(special="forms"))
        return [x for x in a.violations if x["case"].get("expr") == v["case"].get("expr")], None
    res, viols = replay_case(v["case"], MONITORS, v["prefix"])
    return viols, res.trace
