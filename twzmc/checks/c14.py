"""C14 - a failing node fails the call, names itself, and starts nothing downstream."""
from __future__ import annotations

import itertools

from ..gprog import res_menu, shapes
from ..monitors import mon_c14
from ..sched import replay_case, run_case
from ..spaces import shard_iter

ID = "C14"
BUDGET = {"quick": 100, "thorough": 900}
MONITORS = [mon_c14]


def res_variants(n, failing, q):
    """RES* on the failing nodes, a menu on the rest."""
    rest_menu = ["t" * n, "a" * n, "m" * n, ("ta" * n)[:n], ("am" * n)[:n]]
    if q:
        rest_menu = rest_menu[:4]
    seen = set()
    for base in rest_menu:
        for fr in itertools.product("tam", repeat=len(failing)):
            r = list(base)
            for i, x in zip(failing, fr):
                r[i] = x
            r = "".join(r)
            if r not in seen:
                seen.add(r)
                yield r


def cases(tier: str):
    q = tier == "quick"
    for n in (1, 2, 3, 4):
        for es in shapes(n):
            if n == 4 and q and len(es) > 3:
                continue
            fsets = [(i,) for i in range(n)] + [p for p in itertools.combinations(range(n), 2)]
            for fs in fsets:
                if n == 4 and q and len(fs) == 2:
                    continue
                for res in res_variants(n, fs, q or n == 4):
                    for mc in ((1, 2, 3) if n < 4 else (2, 3)):
                        for is_async in (False, True):
                            if n == 4 and is_async and q:
                                continue
                            for et in ("V", "U"):
                                if et == "U" and (n > 2 or mc != 2):
                                    continue  # the exception type is orthogonal to scheduling: small slice
                                for noloc in (False, True):
                                    if noloc and (n > 2 or mc != 2):
                                        continue
                                    yield dict(n=n, es=es, fail={i: et for i in fs}, res=res, mc=mc, is_async=is_async,
                                               noloc=noloc, batch=True, ties=1 if (q or n == 4) else None)


def early_cases(tier: str):
    """a failing pooled node may have finished long before the scheduler looks at it (visible to code polling done())"""
    q = tier == "quick"
    for n in (2, 3):
        for es in shapes(n):
            if len(es) > 1:
                continue
            for f in range(n):
                for res in itertools.product("tam", repeat=n):
                    res = "".join(res)
                    if res[f] == "m" or "a" not in res and "t" not in res:
                        continue
                    for mc in (2, 3):
                        for is_async in (False, True):
                            if q and n == 3 and not is_async:
                                continue
                            yield dict(n=n, es=es, fail={f: "V"}, res=res, mc=mc, is_async=is_async, noloc=False, batch=False, ties=0, early=1)


def attr_cases(tier: str):
    """failures next to sequential candidates and priorities; failures with profiling switched on"""
    q = tier == "quick"
    for n in (2, 3, 4):
        for es in shapes(n):
            if len(es) > (1 if n >= 3 else 1):
                continue
            for f in range(n):
                for s_ in range(n):
                    if s_ == f and n > 2:
                        continue
                    for res in itertools.product("ta", repeat=n):
                        res = "".join(res)
                        if n == 4 and (q and res.count("a") != 1):
                            continue
                        for prio in (tuple(range(n - 1, -1, -1)), tuple(range(n))):
                            for is_async in (False, True):
                                yield dict(n=n, es=es, fail={f: "V"}, res=res, seq=tuple(j == s_ for j in range(n)), prio=prio, mc=3,
                                           is_async=is_async, noloc=False, batch=False, ties=0)
    for n in (1, 2, 3):
        for es in shapes(n):
            for f in range(n):
                for res in ("t" * n, "a" * n, "m" * n, ("mt" * n)[:n]):
                    for is_async in (False, True):
                        yield dict(n=n, es=es, fail={f: "V"}, res=res, mc=2, is_async=is_async, noloc=False, batch=False, ties=0, profile=True)


def nontrivial(view):
    # a sibling (neither ancestor nor descendant of the failing node) was in flight or ready when the failure was observed
    from ..monitors import failure_observed_at

    t = failure_observed_at(view)
    if t is None:
        return None
    if len(view.enters) >= 2 or view.ready(t):
        return tuple(e[:2] for e in view.trace if e[0] in ("enter", "exit", "done"))
    return None


def run_shard(tier, k, n, acc):
    from ..spaces import cross_families, foreign_quick_cases
    its = [cases(tier), early_cases(tier), attr_cases(tier), cross_families(tier)]
    if tier != "quick":
        its.append(foreign_quick_cases("c14"))
    for c in shard_iter(itertools.chain(*its), k, n, acc):
        run_case(acc, c, MONITORS, nontrivial)


def replay(v):
    res, viols = replay_case(v["case"], MONITORS, v["prefix"])
    return viols, res.trace
