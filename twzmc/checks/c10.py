"""C10 - twz_active runs a node iff the supplied value is truthy; otherwise None."""
from __future__ import annotations

from .. import harness as H
from .. import ir
from ..ir import NODEFAULT
from ..monitors import V
from ..prog import build, compare, run_program
from ..spaces import shard_iter
from .c20 import C, P, Vv, call, sub

ID = "C10"
BUDGET = {"quick": 240, "thorough": 300}

CONST_FLAGS = [True, False, 0, 1, "", "a", [], [0], None]


def flag_forms():
    """(name, statements producing the flag, flag atom). Inputs x in {0, 3, -1} make each form truthy and falsy."""
    for cv in CONST_FLAGS:
        yield f"const:{cv!r}", [], C(cv)
    yield "param", [], P("x")
    yield "whole", [call("inc", [P("x")], "f0")], Vv("f0")  # x=-1 -> 0
    yield "dict_key", [call("mkd", [P("x")], "f0")], Vv("f0", "k")  # whole dict truthy, ['k'] = x
    yield "nested_index", [call("mkd", [P("x")], "f0")], Vv("f0", "l", 0)
    yield "tuple_index", [call("pair", [P("x")], "f0")], Vv("f0", 0)  # (0, 1): whole truthy, [0] falsy
    yield "tuple_index1", [call("pair", [P("x")], "f0")], Vv("f0", 1)  # x=-1 -> (−1, 0): [1] falsy
    yield "unpacked0", [call("pair_u", [P("x")], ["fa", "fb"])], Vv("fa")
    yield "unpacked1", [call("pair_u", [P("x")], ["fa", "fb"])], Vv("fb")
    yield "comparison", [{"k": "op", "op": ">", "a": P("x"), "b": C(0), "out": "f0"}], Vv("f0")
    yield "and_", [call("inc", [P("x")], "f1"), {"k": "logic", "fn": "and_", "args": [P("x"), Vv("f1")], "out": "f0"}], Vv("f0")
    yield "not_", [{"k": "logic", "fn": "not_", "args": [P("x")], "out": "f0"}], Vv("f0")
    yield "deactivated_result", [call("inc", [P("x")], "f0", flag=C(False))], Vv("f0")  # None -> falsy


INNER_PLAIN = {"name": "inner", "params": [["a", NODEFAULT], ["b", 5]],
               "body": [call("add", [P("a"), P("b")], "w0"), call("inc", [Vv("w0")], "w1")], "ret": ["tuple", [Vv("w1"), P("a")]], "subs": []}
INNER_SINGLE = {"name": "inner", "params": [["a", NODEFAULT]], "body": [call("inc", [P("a")], "w0")], "ret": ["atom", Vv("w0")], "subs": []}
INNER_SETUP = {"name": "inner", "params": [["a", NODEFAULT]],
               "body": [call("sk0", [], "s0"), call("add", [P("a"), Vv("s0")], "w0")], "ret": ["dict", {"r": Vv("w0")}], "subs": []}
INNER_FLAGGED = {"name": "inner", "params": [["a", NODEFAULT]],
                 "body": [call("inc", [P("a")], "w0", flag=P("a"))], "ret": ["atom", Vv("w0")], "subs": []}
MID = {"name": "mid", "params": [["t", NODEFAULT]], "body": [sub("inner", [P("t")], ["ia", "ib"]), call("add", [Vv("ia"), Vv("ib")], "w5")],
       "ret": ["list", [Vv("w5"), Vv("ia")]], "subs": [INNER_PLAIN]}


INNER_PASS = {"name": "inner", "params": [["a", NODEFAULT], ["b", 3]], "body": [call("inc", [P("b")], "w0")],
              "ret": ["tuple", [P("a"), Vv("w0")]], "subs": []}  # returns its parameter directly
MID_PASS = {"name": "mid", "params": [["t", NODEFAULT]],
            "body": [call("sk0", [], "s0"), sub("inner", [Vv("s0")], ["ia", "ib"]), sub("inner", [C(7), P("t")], ["ja", "jb"]),
                     sub("inner", [P("t")], ["ka", "kb"])],
            "ret": ["list", [Vv("ia"), Vv("ib"), Vv("ja"), Vv("jb"), Vv("ka")]], "subs": [INNER_PASS]}


def carriers(flag):
    """(name, statements, return spec, subs, expect_build_error)"""
    yield "plain", [call("inc", [P("y")], "r", flag=flag)], ["atom", Vv("r")], [], None
    yield "kwarg", [call("add", [P("y")], "r", kwargs={"y": C(3)}, flag=flag)], ["tuple", [Vv("r")]], [], None
    yield "reused", [call("inc", [P("y")], "q"), call("inc", [Vv("q")], "r", flag=flag), call("inc", [P("y")], "s")], ["tuple", [Vv("q"), Vv("r"), Vv("s")]], [], None
    yield "dependents", [call("inc", [P("y")], "r", flag=flag), call("ident", [Vv("r")], "s"), call("ident", [Vv("s")], "t"),
                         call("mkd", [P("y")], "o")], ["tuple", [Vv("r"), Vv("s"), Vv("t"), Vv("o", "k")]], [], None
    yield "flag_chain", [call("inc", [P("y")], "r", flag=flag), call("inc", [P("y")], "s", flag=Vv("r")), call("ident", [Vv("s")], "t")], \
        ["tuple", [Vv("r"), Vv("s"), Vv("t")]], [], None
    yield "sub_tuple", [sub("inner", [P("y")], ["ra", "rb"], flag=flag), call("ident", [Vv("ra")], "s")], ["tuple", [Vv("ra"), Vv("rb"), Vv("s")]], [INNER_PLAIN], None
    yield "sub_whole", [sub("inner", [P("y"), C(2)], "r", flag=flag)], ["atom", Vv("r")], [INNER_PLAIN], None
    yield "sub_single", [sub("inner", [P("y")], "r", flag=flag), call("ident", [Vv("r")], "s")], ["tuple", [Vv("r"), Vv("s")]], [INNER_SINGLE], None
    yield "sub_setup", [sub("inner", [P("y")], "r", flag=flag)], ["atom", Vv("r")], [INNER_SETUP], None
    yield "sub_flagged_inner", [sub("inner", [P("y")], "r", flag=flag)], ["atom", Vv("r")], [INNER_FLAGGED], "RuntimeError"
    # three levels: the flagged DAG calls a DAG that returns its own parameter, fed by a setup result / a constant / a parameter
    yield "sub_three_levels_passthrough", [sub("mid", [P("y")], "r", flag=flag), call("ident", [Vv("r", 0)], "s")], \
        ["tuple", [Vv("r", 0), Vv("r", 1), Vv("r", 2), Vv("r", 3), Vv("r", 4), Vv("s")]], [MID_PASS], None
    yield "sub_two_levels", [sub("mid", [P("y")], "r", flag=flag), call("ident", [Vv("r", 0)], "s")], ["tuple", [Vv("r", 0), Vv("r", 1), Vv("s")]], [MID], None


def two_part_programs():
    """two nodes guarded by DIFFERENT parts of the same producer (one truthy, one falsy for suitable inputs)"""
    yield "unpacked_both", [call("pair_u", [P("x")], ["fa", "fb"]), call("inc", [P("y")], "r", flag=Vv("fa")), call("inc", [P("y")], "s", flag=Vv("fb")),
                            call("ident", [Vv("s")], "t")], ["tuple", [Vv("r"), Vv("s"), Vv("t")]]
    yield "dict_both", [call("mkd", [P("x")], "m"), call("inc", [P("y")], "r", flag=Vv("m", "k")), call("add", [P("y")], "s", flag=Vv("m", "l", 1)),
                        call("inc", [P("y")], "u", flag=Vv("m"))], ["tuple", [Vv("r"), Vv("s"), Vv("u")]]
    yield "tuple_both_reversed", [call("pair", [P("x")], "m"), call("inc", [P("y")], "s", flag=Vv("m", 1)), call("inc", [P("y")], "r", flag=Vv("m", 0))], \
        ["list", [Vv("r"), Vv("s")]]


INNER_IDXFLAG = {"name": "inner", "params": [["a", NODEFAULT]],
                 "body": [call("mkd", [P("a")], "m"), call("pair", [P("a")], "t"), call("inc", [P("a")], "w0", flag=Vv("m", "k")),
                          call("add", [P("a")], "w1", flag=Vv("t", 1)), call("pair_u", [P("a")], ["ua", "ub"]), call("inc", [P("a")], "w2", flag=Vv("ua"))],
                 "ret": ["tuple", [Vv("w0"), Vv("w1"), Vv("w2")]], "subs": []}
MID_IDXFLAG = {"name": "mid", "params": [["t", NODEFAULT]], "body": [sub("inner", [P("t")], ["ia", "ib", "ic"])],
               "ret": ["list", [Vv("ia"), Vv("ib"), Vv("ic")]], "subs": [INNER_IDXFLAG]}


INNER_SETUP_FLAG = {"name": "inner", "params": [["a", NODEFAULT]],
                    "body": [call("sk0", [], "g"), call("sinc", [Vv("g")], "m", flag=Vv("g")), call("sk0", [], "h", flag=C(False)),
                             call("add", [P("a"), Vv("m")], "w0")],
                    "ret": ["tuple", [Vv("w0"), Vv("m"), Vv("h")]], "subs": []}


def inner_flag_programs():
    # setup nodes carrying their OWN flag (a constant / another setup node's result) inside a DAG called inside a DAG
    yield "inner_setup_nodes_with_flags", [sub("inner", [P("x")], ["ra", "rb", "rc"]), call("ident", [Vv("rb")], "s")], \
        ["tuple", [Vv("ra"), Vv("rb"), Vv("rc"), Vv("s")]], [INNER_SETUP_FLAG]
    """flags INSIDE a nested DAG that are indexed / unpacked parts of inner results (no flag on the nested call itself)"""
    yield "inner_indexed_flags", [sub("inner", [P("x")], ["ra", "rb", "rc"]), call("ident", [Vv("rb")], "s")], \
        ["tuple", [Vv("ra"), Vv("rb"), Vv("rc"), Vv("s")]], [INNER_IDXFLAG]
    # the same inner DAG called twice: each copy is governed by ITS OWN inner flags (first call: falsy for x=0, second: truthy)
    yield "inner_flags_two_calls", [sub("inner", [P("x")], ["ra", "rb", "rc"]), sub("inner", [P("y")], ["sa", "sb", "sc"]),
                                    sub("inner", [C(0)], ["ta", "tb", "tc"])], \
        ["tuple", [Vv("ra"), Vv("rb"), Vv("rc"), Vv("sa"), Vv("sb"), Vv("sc"), Vv("ta"), Vv("tb"), Vv("tc")]], [INNER_IDXFLAG]
    yield "inner_indexed_flags_two_levels", [sub("mid", [P("x")], "r")], ["atom", Vv("r")], [MID_IDXFLAG]


STATEFUL_SRC = '''
from tawazi import xn, dag
import twzmc.harness as H
import twzmc.ir as IRL

class Switch:
    """a constant whose truthiness is decided when it is LOOKED AT (feature switch)"""
    def __init__(self):
        self.on = True
    def __bool__(self):
        return self.on

SWITCH = Switch()
ITEMS = [1]

@xn
def inc(*a, **k):
    return H.lib_call("inc", IRL.LIB["inc"], a, k)

@dag
def inner(a):
    return inc(a)

@dag
def main(x):
    r = inc(x, twz_active=SWITCH)
    s = inc(x, twz_active=ITEMS)
    t = inner(x, twz_active=SWITCH)
    return r, s, t
'''


MIDRUN_SRC = '''
from tawazi import xn, dag
import twzmc.harness as H
import twzmc.ir as IRL

LATE = []

@xn
def inc(*a, **k):
    return H.lib_call("inc", IRL.LIB["inc"], a, k)

def _arm(ctx, on):
    # an upstream node switches the (mutable) objects that later nodes use as flags
    ctx["ready"] = on
    LATE[:] = [1] if on else []
    return 3

@xn
def arm(*a, **k):
    return H.lib_call("arm", _arm, a, k)

@dag
def inner(a):
    return inc(a)

@dag
def main(ctx, on):
    a = arm(ctx, on)
    r = inc(a, twz_active=ctx["ready"])
    s = inc(a, twz_active=LATE)
    t = inner(a, twz_active=ctx["ready"])
    return r, s, t
'''


def midrun_case(acc, c):
    """the flag is looked at when the flagged node is picked, i.e. after its dependencies ran: a mutable DAG argument / constant
    switched by an upstream dependency during the run"""
    from ..build import exec_source
    acc.cases += 1
    ns = exec_source(MIDRUN_SRC)
    d = ns["main"]
    for start, on, want in ((False, True, (4, 4, 4)), (True, False, (None, None, None)), (False, False, (None, None, None)), (True, True, (4, 4, 4))):
        ns["LATE"][:] = [1] if start else []
        res = H.run_controlled(lambda: d({"ready": start}, on))
        acc.evaluations += 1
        acc.mark_nontrivial(("midrun", start, on))
        if res.outcome != "return" or res.value != want:
            acc.violation(V("flag_not_read_at_run_time", f"flag objects {'truthy' if start else 'falsy'} at the call and switched {'on' if on else 'off'} by a dependency of the flagged nodes: "
                            f"DAG returned {res.value!r} ({res.outcome} {res.exc!r}), expected {want!r}", start=start, on=on), dict(c, start=start, on=on), (), res.trace, MIDRUN_SRC)


COMPOSED_SRC = '''
from tawazi import xn, dag
import twzmc.harness as H
import twzmc.ir as IRL

@xn
def inc(*a, **k):
    return H.lib_call("inc", IRL.LIB["inc"], a, k)

@xn
def ident(*a, **k):
    return H.lib_call("ident", IRL.LIB["ident"], a, k)

@xn
def mkd(*a, **k):
    return H.lib_call("mkd", IRL.LIB["mkd"], a, k)

@dag
def main(x, y, z):
    a = ident(x)
    b = ident(y)
    c = mkd(z)
    r = inc(b, twz_active=a)          # flag = FIRST input of the composed DAG
    s = inc(a, twz_active=b)          # flag = middle input
    t = inc(a, twz_active=c["k"])     # flag = indexed part of the last input
    u = inc(b, twz_active=c["l"][0])
    return r, s, t, u

comp = main.compose("comp", ["ident", "ident<<1>>", "mkd"], ["inc", "inc<<1>>", "inc<<2>>", "inc<<3>>"])
comp_rev = main.compose("comp_rev", ["mkd", "ident<<1>>", "ident"], ["inc", "inc<<1>>", "inc<<2>>", "inc<<3>>"])
'''


def composed_case(acc, c):
    """flags produced by nodes that became the INPUTS of a DAG derived with compose(): each flagged node follows its own input"""
    import itertools
    from ..build import exec_source
    acc.cases += 1
    ns = exec_source(COMPOSED_SRC)
    for name, order in (("comp", "abc"), ("comp_rev", "cba")):
        d = ns[name]
        for fa, fb, fk, fl in itertools.product((0, 3), (0, 3), (0, 5), (0, 7)):
            vals = {"a": fa, "b": fb, "c": {"k": fk, "l": [fl, 1]}}
            want = (fb + 1 if fa else None, fa + 1 if fb else None, fa + 1 if fk else None, fb + 1 if fl else None)
            res = H.run_controlled(lambda: d(*[vals[o] for o in order]))
            acc.evaluations += 1
            acc.mark_nontrivial(("composed", name, fa, fb, fk, fl))
            if res.outcome != "return" or res.value != want:
                acc.violation(V("composed_flag", f"{name}(inputs {vals}): returned {res.value!r} ({res.outcome} {res.exc!r}), expected {want!r}", dag=name),
                              dict(c, dag=name, vals=repr(vals)), (), res.trace, COMPOSED_SRC)


CONST_RETURN_SRC = '''
from tawazi import xn, dag
import twzmc.harness as H
import twzmc.ir as IRL

@xn
def inc(*a, **k):
    return H.lib_call("inc", IRL.LIB["inc"], a, k)

@dag
def inner(a):
    return inc(a), 9

@dag
def inner_d(a):
    return {{"v": inc(a), "c": "z"}}

@dag
def main(x, f):
    r = {call}(x, twz_active=f)
    return r
'''


def const_return_case(acc, c):
    """'all outputs of a deactivated nested DAG are None' - also the outputs that are Python constants of the inner return"""
    from ..build import exec_source
    acc.cases += 1
    for call_, active_val, inactive_val in (("inner", (4, 9), (None, None)), ("inner_d", {"v": 4, "c": "z"}, {"v": None, "c": None})):
        src = CONST_RETURN_SRC.format(call=call_)
        ns = exec_source(src)
        d = ns["main"]
        for f, want in ((True, active_val), (False, inactive_val), (0, inactive_val)):
            res = H.run_controlled(lambda: d(3, f))
            acc.evaluations += 1
            acc.mark_nontrivial(("const_return", call_, repr(f)))
            if res.outcome != "return" or res.value != want:
                kind = "deactivated_nested_constant_output" if (not f and res.outcome == "return") else "wrong_value"
                acc.violation(V(kind, f"{call_}(x, twz_active={f!r}) whose return contains a Python constant returned {res.value!r}, expected {want!r}",
                                constant_in_inner_return=True, flag_truthy=bool(f)), dict(c, call=call_, f=repr(f)), (), res.trace, src)


def stateful_case(acc, c):
    """the flag value is looked at when the DAG RUNS: a constant that is truthy at description time and falsy at run time deactivates"""
    from ..build import exec_source
    acc.cases += 1
    ns = exec_source(STATEFUL_SRC)
    d = ns["main"]
    for on, items, want in ((True, [1], (4, 4, 4)), (False, [1], (None, 4, None)), (True, [], (4, None, 4)), (False, [], (None, None, None)), (True, [0], (4, 4, 4))):
        ns["SWITCH"].on = on
        ns["ITEMS"][:] = items
        res = H.run_controlled(lambda: d(3))
        acc.evaluations += 1
        acc.mark_nontrivial(("stateful", on, tuple(items)))
        if res.outcome != "return" or res.value != want:
            acc.violation(V("stateful_constant_flag", f"switch={on}, items={items}: DAG returned {res.value!r} ({res.outcome} {res.exc!r}), expected {want!r} (flags are evaluated at run time)",
                            on=on, items=len(items)), dict(c), (), res.trace, STATEFUL_SRC)


def cases(tier: str):
    yield dict(flag="stateful_constant", carrier="special", prog=None, expect_build_error=None, special="stateful")
    yield dict(flag="param", carrier="sub_const_return", prog=None, expect_build_error=None, special="const_return")
    yield dict(flag="mutable_param_and_constant", carrier="special", prog=None, expect_build_error=None, special="midrun")
    yield dict(flag="inputs_of_composed_dag", carrier="special", prog=None, expect_build_error=None, special="composed")
    for name, body, rspec, subs in inner_flag_programs():
        prog = {"name": "main", "params": [["x", NODEFAULT], ["y", 4]], "body": body, "ret": rspec, "subs": subs}
        yield dict(flag="inside_nested", carrier=name, prog=prog, expect_build_error=None)
    for name, body, rspec in two_part_programs():
        prog = {"name": "main", "params": [["x", NODEFAULT], ["y", 4]], "body": body, "ret": rspec, "subs": []}
        yield dict(flag="two_parts", carrier=name, prog=prog, expect_build_error=None)
    for fname, fstmts, fatom in flag_forms():
        for cname, cstmts, rspec, subs, err in carriers(fatom):
            prog = {"name": "main", "params": [["x", NODEFAULT], ["y", 4]], "body": fstmts + cstmts, "ret": rspec, "subs": subs}
            yield dict(flag=fname, carrier=cname, prog=prog, expect_build_error=err)


INPUTS = [(0,), (3,), (-1,), (-2,), (0, 7), (3, 7)]


def run_one(acc, c):
    if c.get("special") == "stateful":
        return stateful_case(acc, c)
    if c.get("special") == "const_return":
        return const_return_case(acc, c)
    if c.get("special") == "midrun":
        return midrun_case(acc, c)
    if c.get("special") == "composed":
        return composed_case(acc, c)
    prog = c["prog"]
    case = {"prog": prog, "flag": c["flag"], "carrier": c["carrier"]}
    if c["expect_build_error"]:
        acc.cases += 1
        acc.evaluations += 1
        try:
            build(prog, "mc1", False)
        except RuntimeError:
            acc.mark_nontrivial((c["flag"], c["carrier"]))
            return
        except Exception as e:  # noqa: BLE001
            acc.violation(V("wrong_build_error", f"flag on a nested DAG that already has a flagged node: expected the documented RuntimeError, got {e!r}"), case, (), None, ir.source(prog))
            return
        acc.violation(V("missing_build_error", "flag on a nested DAG that already has a flagged node was accepted (documented: RuntimeError)"), case, (), None, ir.source(prog))
        return
    has_setup = "setup" in c["carrier"] or "passthrough" in c["carrier"]
    run_program(acc, case, prog, INPUTS, ["mc1", "mc3"], (False, True), explore_all=not has_setup, stateful_setup=has_setup, max_execs=200)
    acc.mark_nontrivial((c["flag"], c["carrier"]))
    if acc.cases <= 2:
        acc.sample({"source": ir.source(prog), "reference": [repr(ir.ref_eval(prog, i)[:2]) for i in INPUTS]})


def run_shard(tier, k, n, acc):
    for c in shard_iter(cases(tier), k, n, acc):
        run_one(acc, c)


def replay(v):
    from ..acc import Acc
    c = v["case"]
    a = Acc(ID, 0, 1, 600)
    prog = c["prog"]
    if "config" not in c:
        run_one(a, dict(c, expect_build_error="RuntimeError" if c["carrier"] == "sub_flagged_inner" else None))
        return a.violations, None
    from ..prog import replay_built
    return replay_built(a, v)
