"""C18 - an execution restarted from a cache file reuses, not recomputes, cached results."""
from __future__ import annotations

import os
import pickle

from .. import harness as H
from ..build import build_gprog
from ..gprog import NODEFAULT, Edge, GNode, GProg, shapes
from ..harness import Tok
from ..monitors import V, View, mon_c02, mon_c03
from ..spaces import prog_of, shard_iter

ID = "C18"
BUDGET = {"quick": 240, "thorough": 600}


def make_prog(n, es, with_param: bool, none_node=None, kinds=None) -> GProg:
    if kinds is not None:
        from ..spaces import kinds_rotating
        es = kinds_rotating(es, kinds)  # keyword, indexed and activation-flag dependencies (every flag is truthy)
    p = prog_of(dict(n=n, es=es, res=("tm" * n)[:n], mc=2, retnone=[none_node] if none_node is not None else []))
    if not with_param:
        return p
    nodes = list(p.nodes)
    for i in range(n):
        if not nodes[i].edges:
            nodes[i] = GNode(**{**nodes[i].__dict__, "edges": (Edge(-1, "pos"),)})
    return GProg(nodes=tuple(nodes), mc=2, params=(("x", NODEFAULT),))


def tok_or_none(p, ids, i, serial):
    return None if p.nodes[i].retnone else Tok(ids[i], serial)


def cases(tier: str):
    q = tier == "quick"
    for n in ((1, 2, 3, 4) if q else (1, 2, 3, 4, 5)):
        for es in shapes(n):
            if (n == 4 and q and len(es) > 4) or (n == 5 and len(es) > 4):
                continue
            for with_param in (False, True):
                cachings = [("whole", None)] + [("target", t) for t in range(n)] + [("deps", t) for t in range(n)]
                for ck, ct in cachings:
                    restarts = [("same", None), ("whole", None)] + [("deps", t) for t in range(n)] + ([("target", t) for t in range(n)] if not q else [])
                    for rk, rt in restarts:
                        for other_input in ((False, True) if with_param else (False,)):
                            yield dict(n=n, es=es, with_param=with_param, caching=[ck, ct], restart=[rk, rt], other_input=other_input,
                                       chain=(n <= 3 and not other_input and rk in ("same", "deps")))
                            if n <= 3 and not other_input and rk in ("same", "whole"):
                                for nn in range(n):  # a node whose (legal) result is None
                                    yield dict(n=n, es=es, with_param=with_param, caching=[ck, ct], restart=[rk, rt], other_input=False, none_node=nn)
                if 2 <= n <= 3 and es:
                    # dependencies that are keyword arguments, indexed results and activation flags
                    for kinds in (1, 4, 5):
                        for ck, ct in cachings:
                            for rk, rt in (("same", None), ("whole", None)):
                                yield dict(n=n, es=es, with_param=with_param, caching=[ck, ct], restart=[rk, rt], other_input=False, kinds=kinds)
                if n <= 3:
                    # one DAG instance, one path: cache, restart, cache again (other argument / other selection), restart again
                    for ck, ct in cachings[: n + 1]:
                        for ck2, ct2 in cachings:
                            yield dict(n=n, es=es, with_param=with_param, special="rewrite", caching=[ck, ct], caching2=[ck2, ct2])
                            if ck2 == "whole":
                                yield dict(n=n, es=es, with_param=with_param, special="rewrite", caching=[ck, ct], caching2=[ck2, ct2], prebuilt=True)
    # cache_deps_of naming two nodes; cache_deps_of with a debug node downstream and RUN_DEBUG_NODES on
    for n in (2, 3, 4):
        for es in shapes(n):
            if n == 4 and len(es) > 3:
                continue
            yield dict(n=n, es=es, special="default_arg")
            yield dict(n=n, es=es, special="deps2")
            yield dict(n=n, es=es, special="deps_debug")


def kw_of(ids, kind, t, path, mode):
    kw = {("cache_in" if mode == "w" else "from_cache"): path}
    if kind == "target":
        kw["target_nodes"] = [ids[t]]
    elif kind == "deps":
        kw["cache_deps_of"] = [ids[t]]
    return kw


def sel_of(p, kind, t):
    if kind in ("target", "deps"):
        s, _ = p.closure(None, None, [t])
        return s
    return set(range(len(p.nodes)))


def run_default_arg(acc, c):
    """a DAG argument WITH a default, given explicitly to the caching run and NOT repeated at the restart: nodes that are re-executed
    read the cached argument (the restart returns what the caching run returned)"""
    n = c["n"]
    p0 = prog_of(dict(n=n, es=[tuple(e) for e in c["es"]], res=("tm" * n)[:n], mc=2))
    nodes = list(p0.nodes)
    for i in range(n):
        nodes[i] = GNode(**{**nodes[i].__dict__, "edges": nodes[i].edges + (Edge(-1, "kw"),)})  # every node reads the argument directly
    p = GProg(nodes=tuple(nodes), mc=2, params=(("x", "dflt"),))
    ids = p.ids()
    src = p.source()
    acc.cases += 1
    tmp = os.environ.get("VERIF_TMP", "/tmp")
    path = os.path.join(tmp, "cache_da.pkl")
    for t in range(n):
        d1, _ = build_gprog(p)
        res1 = H.run_controlled(lambda: d1.executor(cache_deps_of=[ids[t]], cache_in=path)("given"))
        acc.evaluations += 1
        if res1.outcome != "return":
            acc.violation(V("caching_run_failed", f"cache_deps_of=[{ids[t]}] raised {res1.exc!r}"), c, (), res1.trace, src)
            continue
        serial1 = next((e[2] for e in res1.trace if e[0] == "enter"), None)
        content = pickle.load(open(path, "rb"))  # noqa: S301
        cached = {i for i in range(n) if ids[i] in content}
        d2, _ = build_gprog(p)
        res2 = H.run_controlled(lambda: d2.executor(cache_deps_of=[ids[t]], from_cache=path)())  # argument NOT repeated
        acc.evaluations += 1
        sel = sel_of(p, "deps", t)
        v2 = View(p, res2, sel, {i: serial1 for i in cached}, False, ("given",))
        if res2.outcome != "return":
            acc.violation(V("restart_failed", f"restart without repeating the defaulted argument raised {res2.exc!r}"), dict(c, t=t), (), res2.trace, src)
            continue
        for m in (mon_c02, mon_c03):
            for viol in m(v2):
                acc.violation(dict(viol, kind="default_arg_" + viol["kind"], msg=f"restart of cache_deps_of=[{ids[t]}] without repeating x='given': " + viol["msg"]), dict(c, t=t), (), res2.trace, src)
        acc.mark_nontrivial((repr(c), t))
    acc.states += n
    acc.transitions += n
    if os.path.exists(path):
        os.remove(path)


def run_rewrite(acc, c):
    """One DAG instance and one path: caching run #1, restart, caching run #2 that rewrites the file, restart again.
    The second restart must start from what the file holds NOW."""
    p = make_prog(c["n"], [tuple(e) for e in c["es"]], c["with_param"])
    ids = p.ids()
    src = p.source()
    acc.cases += 1
    tmp = os.environ.get("VERIF_TMP", "/tmp")
    path = os.path.join(tmp, "cache_rw.pkl")
    if os.path.exists(path):
        os.remove(path)
    d, _ = build_gprog(p)
    a1 = ("c1",) if c["with_param"] else ()
    a2 = ("c2",) if c["with_param"] else ()
    for rnd, ((ck, ct), args) in enumerate(((c["caching"], a1), (c["caching2"], a2))):
        early_restart = None
        if rnd == 1 or c.get("prebuilt"):
            try:
                # the restarting executor is prepared BEFORE the file is (re)written; it must read the file when it RUNS
                early_restart = d.executor(**kw_of(ids, ck, ct, path, "r"))
            except FileNotFoundError as e:
                acc.violation(V("restart_executor_reads_file_early", f"constructing executor(from_cache=...) before the file exists raised {e!r}"), c, (), None, src)
        res = H.run_controlled(lambda: d.executor(**kw_of(ids, ck, ct, path, "w"))(*args))
        acc.evaluations += 1
        if res.outcome != "return":
            acc.violation(V("caching_run_failed", f"round {rnd}: caching run {[ck, ct]} raised {res.exc!r}"), c, (), res.trace, src)
            return
        serial = next((e[2] for e in res.trace if e[0] == "enter"), None)
        content = pickle.load(open(path, "rb"))  # noqa: S301
        cached = {i for i in range(len(ids)) if ids[i] in content}
        rk, rt = (ck, ct)
        if early_restart is not None:
            res2 = H.run_controlled(lambda: early_restart(*args))
        else:
            res2 = H.run_controlled(lambda: d.executor(**kw_of(ids, rk, rt, path, "r"))(*args))
        acc.evaluations += 1
        sel2 = sel_of(p, rk, rt)
        v2 = View(p, res2, sel2, {i: serial for i in cached}, False, args)
        if res2.outcome != "return":
            acc.violation(V("restart_failed", f"round {rnd}: restart from the rewritten file raised {res2.exc!r}"), c, (), res2.trace, src)
            return
        for m in (mon_c02, mon_c03):
            for viol in m(v2):
                acc.violation(dict(viol, kind="stale_cache_" + viol["kind"], msg=f"round {rnd} (same instance, same path): " + viol["msg"]), c, (), res2.trace, src)
        val = res2.value
        for i in range(len(ids)):
            exp = Tok(ids[i], serial) if i in cached else (Tok(ids[i], v2.serial) if ids[i] in v2.enters else None)
            if not isinstance(val, tuple) or (val[i] != exp and not (val[i] is None and exp is None)):
                acc.violation(V("stale_cache_value", f"round {rnd}: restart returned {val!r}; element {i} should be {exp!r} (what the file holds now)"), c, (), res2.trace, src)
                break
    acc.mark_nontrivial(repr(c))
    acc.states += 4
    acc.transitions += 4
    if os.path.exists(path):
        os.remove(path)


def run_special(acc, c):
    """cache_deps_of=[a, b]: the file holds everything a and b depend on but neither a's nor b's result, and the restart
    executes exactly a and b. With RUN_DEBUG_NODES on and debug nodes downstream of n, cache_deps_of=[n] still excludes n."""
    import itertools

    from tawazi import cfg

    n = c["n"]
    es = [tuple(e) for e in c["es"]]
    acc.cases += 1
    tmp = os.environ.get("VERIF_TMP", "/tmp")
    path = os.path.join(tmp, "cache_s.pkl")
    if c["special"] == "deps2":
        p = make_prog(n, es, False)
        ids = p.ids()
        for a, b in itertools.combinations(range(n), 2):
            d1, _ = build_gprog(p)
            res1 = H.run_controlled(lambda: d1.executor(cache_deps_of=[ids[a], ids[b]], cache_in=path)())
            acc.evaluations += 1
            if res1.outcome != "return":
                acc.violation(V("caching_run_failed", f"cache_deps_of=[{ids[a]}, {ids[b]}] raised {res1.exc!r}"), c, (), res1.trace, p.source())
                continue
            content = pickle.load(open(path, "rb"))  # noqa: S301
            deps = (p.anc(a) | p.anc(b)) - {a, b}
            have = {i for i in range(n) if ids[i] in content}
            if have != deps:
                acc.violation(V("deps2_file", f"cache_deps_of=[{ids[a]}, {ids[b]}]: file holds {[ids[i] for i in sorted(have)]}, expected the dependencies {[ids[i] for i in sorted(deps)]}"),
                              dict(c, a=a, b=b), (), res1.trace, p.source())
            d2, _ = build_gprog(p)
            res2 = H.run_controlled(lambda: d2.executor(cache_deps_of=[ids[a], ids[b]], from_cache=path)())
            acc.evaluations += 1
            ent = {e[1] for e in res2.trace if e[0] == "enter"}
            if res2.outcome != "return" or ent != {ids[a], ids[b]}:
                acc.violation(V("deps2_round_trip", f"cache_deps_of=[{ids[a]}, {ids[b]}] round trip entered {sorted(ent)} ({res2.outcome} {res2.exc!r})"),
                              dict(c, a=a, b=b), (), res2.trace, p.source())
            acc.mark_nontrivial((repr(c), a, b))
    else:
        from .c03 import down_closed_sets
        cfg.RUN_DEBUG_NODES = True
        try:
            for dbg in down_closed_sets(n, es):
                if len(dbg) == n:
                    continue
                p = prog_of(dict(n=n, es=es, res="t" * n, mc=2, debug=list(dbg)))
                ids = p.ids()
                for t in range(n):
                    if t in dbg:
                        continue
                    d1, _ = build_gprog(p)
                    res1 = H.run_controlled(lambda: d1.executor(cache_deps_of=[ids[t]], cache_in=path)())
                    acc.evaluations += 1
                    if res1.outcome != "return":
                        acc.violation(V("caching_run_failed", f"cache_deps_of=[{ids[t]}] with debug nodes {dbg} raised {res1.exc!r}"), c, (), res1.trace, p.source())
                        continue
                    content = pickle.load(open(path, "rb"))  # noqa: S301
                    if ids[t] in content or any(ids[i] not in content for i in p.anc(t)):
                        acc.violation(V("deps_debug_file", f"cache_deps_of=[{ids[t]}] with debug nodes {list(dbg)} (RUN_DEBUG_NODES on): file holds {sorted(k for k in content if k in ids)}"),
                                      dict(c, t=t, dbg=list(dbg)), (), res1.trace, p.source())
                    d2, _ = build_gprog(p)
                    res2 = H.run_controlled(lambda: d2.executor(cache_deps_of=[ids[t]], from_cache=path)())
                    acc.evaluations += 1
                    ent = {e[1] for e in res2.trace if e[0] == "enter"}
                    if res2.outcome != "return" or ids[t] not in ent or any(ids[i] in ent for i in p.anc(t)):
                        acc.violation(V("deps_debug_round_trip", f"cache_deps_of=[{ids[t]}] round trip with debug nodes {list(dbg)} entered {sorted(ent)}"),
                                      dict(c, t=t, dbg=list(dbg)), (), res2.trace, p.source())
                    acc.mark_nontrivial((repr(c), t, tuple(dbg)))
        finally:
            cfg.RUN_DEBUG_NODES = False
    acc.states += 1
    acc.transitions += 1
    if os.path.exists(path):
        os.remove(path)


def run_one(acc, c):
    if c.get("special") == "rewrite":
        return run_rewrite(acc, c)
    if c.get("special") == "default_arg":
        return run_default_arg(acc, c)
    if c.get("special"):
        return run_special(acc, c)
    p = make_prog(c["n"], [tuple(e) for e in c["es"]], c["with_param"], c.get("none_node"), c.get("kinds"))
    ids = p.ids()
    src = p.source()
    acc.cases += 1
    tmp = os.environ.get("VERIF_TMP", "/tmp")
    path = os.path.join(tmp, "cache.pkl")
    if os.path.exists(path):
        os.remove(path)
    ck, ct = c["caching"]
    rk, rt = c["restart"]
    if rk == "same":
        rk, rt = ck, ct
    args1 = ("c",) if c["with_param"] else ()
    args2 = (("r",) if c["other_input"] else ("c",)) if c["with_param"] else ()
    # ---- caching run
    d1, _ = build_gprog(p)
    res1 = H.run_controlled(lambda: d1.executor(**kw_of(ids, ck, ct, path, "w"))(*args1))
    acc.evaluations += 1
    sel1 = sel_of(p, ck, ct)
    v1 = View(p, res1, sel1, None, False, args1)
    if res1.outcome != "return":
        acc.violation(V("caching_run_failed", f"caching run {c['caching']} raised {res1.exc!r}", exc=type(res1.exc).__name__), c, (), res1.trace, src)
        return
    for m in (mon_c02, mon_c03):
        for viol in m(v1):
            acc.violation(dict(viol, msg="caching run: " + viol["msg"]), c, (), res1.trace, src)
    serial1 = v1.serial
    # ---- the file
    try:
        with open(path, "rb") as f:
            content = pickle.load(f)  # noqa: S301
    except Exception as e:  # noqa: BLE001
        acc.violation(V("no_cache_file", f"caching run {c['caching']} left no readable cache file: {e!r}"), c, (), res1.trace, src)
        return
    want_in = set(sel1) - ({ct} if ck == "deps" else set())
    for i in want_in:
        if ids[i] not in content or content.get(ids[i]) != tok_or_none(p, ids, i, serial1):
            acc.violation(V("cache_file_missing_result", f"cache file of {c['caching']} lacks the result of {ids[i]} (has {sorted(k for k in content if k in ids)})"), c, (), res1.trace, src)
    if ck == "deps" and ids[ct] in content:
        acc.violation(V("cache_file_has_target", f"cache_deps_of=[{ids[ct]}] stored {ids[ct]}'s own result"), c, (), res1.trace, src)
    cached = {i for i in range(len(ids)) if ids[i] in content}
    # ---- restart on a fresh instance of the same DAG
    d2, _ = build_gprog(p)
    res2 = H.run_controlled(lambda: d2.executor(**kw_of(ids, rk, rt, path, "r"))(*args2))
    acc.evaluations += 1
    sel2 = sel_of(p, rk, rt)
    pre = {i: serial1 for i in cached}
    v2 = View(p, res2, sel2, pre, False, args2)
    if res2.outcome != "return":
        acc.violation(V("restart_failed", f"restart {c['restart']} from the cache of {c['caching']} raised {res2.exc!r}", exc=type(res2.exc).__name__), c, (), res2.trace, src)
        return
    for m in (mon_c02, mon_c03):
        for viol in m(v2):
            kind = "recomputed_cached_node" if (viol["kind"] == "entry_count" and viol["sig"].get("status") == "pre") else viol["kind"]
            acc.violation(dict(viol, kind=kind, msg=f"restart {c['restart']} from the cache of {c['caching']}: " + viol["msg"]), c, (), res2.trace, src)
    # returned value: cached tokens for cached nodes, fresh tokens for executed ones, None for the rest
    val = res2.value
    for i in range(len(ids)):
        if i in cached:
            exp = tok_or_none(p, ids, i, serial1)
        elif ids[i] in v2.enters:
            exp = tok_or_none(p, ids, i, v2.serial)
        else:
            exp = None
        if not (isinstance(val, tuple) and len(val) == len(ids)) or val[i] != exp and not (val[i] is None and exp is None):
            acc.violation(V("restart_wrong_value", f"restart {c['restart']} from the cache of {c['caching']} returned {val!r}; element {i} should be {exp!r}"), c, (), res2.trace, src)
            break
    if rk == "deps" and ck in ("deps", "whole") and (ck == "whole" or ct == rt):
        ent = sorted(v2.enters)
        exp_ent = [ids[rt]] if not (ck == "whole") else []
        if ck == "deps" and ent != exp_ent:
            acc.violation(V("deps_round_trip", f"cache_deps_of=[{ids[rt]}] round trip entered {ent}, expected exactly {exp_ent}"), c, (), res2.trace, src)
    # ---- a restart that is itself a caching run (from_cache=F, cache_in=G), then a third run from G
    if c.get("chain"):
        path2 = os.path.join(tmp, "cache2.pkl")
        if os.path.exists(path2):
            os.remove(path2)
        d3, _ = build_gprog(p)
        kw3 = kw_of(ids, rk, rt, path, "r")
        kw3["cache_in"] = path2
        res3 = H.run_controlled(lambda: d3.executor(**kw3)(*args2))
        acc.evaluations += 1
        if res3.outcome != "return":
            acc.violation(V("chained_restart_failed", f"from_cache + cache_in run raised {res3.exc!r}"), c, (), res3.trace, src)
        else:
            with open(path2, "rb") as f:
                content2 = pickle.load(f)  # noqa: S301
            have2 = {i for i in range(len(ids)) if ids[i] in content2}
            ran3 = {ids.index(x) for x in {e[1] for e in res3.trace if e[0] == "enter"} if x in ids}
            want2 = (cached & sel2) | ran3
            if rk == "deps":
                want2 -= {rt}
            if not want2 <= have2:
                acc.violation(V("chained_cache_lost_results", f"run from_cache={c['caching']} cache_in=G ({c['restart']}): G lacks {[ids[i] for i in sorted(want2 - have2)]} (reused or computed by that run)"),
                              c, (), res3.trace, src)
            d4, _ = build_gprog(p)
            res4 = H.run_controlled(lambda: d4.executor(**kw_of(ids, rk, rt, path2, "r"))(*args2))
            acc.evaluations += 1
            ent4 = {e[1] for e in res4.trace if e[0] == "enter"}
            exp4 = {ids[rt]} if rk == "deps" else set()
            if res4.outcome != "return" or ent4 != exp4:
                acc.violation(V("chained_restart_recomputed", f"third run from G entered {sorted(ent4)}, expected {sorted(exp4)} ({res4.outcome} {res4.exc!r})"), c, (), res4.trace, src)
        if os.path.exists(path2):
            os.remove(path2)
    if cached & sel2:
        acc.mark_nontrivial(repr(c))
    acc.states += 2
    acc.transitions += 2
    if acc.cases <= 2:
        acc.sample({"case": c, "cache_file_keys": sorted(content), "restart_entered": sorted(v2.enters)})
    if os.path.exists(path):
        os.remove(path)


def run_shard(tier, k, n, acc):
    for c in shard_iter(cases(tier), k, n, acc):
        run_one(acc, c)


def replay(v):
    from ..acc import Acc
    os.environ.setdefault("VERIF_TMP", "/tmp")
    a = Acc(ID, 0, 1, 600)
    c = v["case"]
    run_one(a, {k: c[k] for k in c if k not in ("a", "b", "t", "dbg")})
    return a.violations, None
