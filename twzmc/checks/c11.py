"""C11 - a setup node runs at most once per DAG instance and its value is reused."""
from __future__ import annotations

import itertools

from ..build import build_gprog
from ..gprog import NODEFAULT, Edge, GNode, GProg, shapes
from ..hist import Instance, run_op
from ..monitors import V
from ..spaces import kinds_rotating, prog_of, shard_iter

ID = "C11"
BUDGET = {"quick": 240, "thorough": 600}


def topo(name: str, is_async: bool) -> GProg:
    P = Edge(-1, "pos")

    def s(*deps):
        return GNode(edges=tuple(Edge(d, "pos") for d in deps), setup=True, res="t")

    def c(*deps, res="t"):
        return GNode(edges=tuple(Edge(d, "pos") for d in deps) + (P,), res=res)

    def sn(*deps):
        return GNode(edges=tuple(Edge(d, "pos") for d in deps), setup=True, res="t", retnone=True)

    def d(*deps, res="t"):  # a non-setup node that does NOT take the DAG argument (computable from setup results alone)
        return GNode(edges=tuple(Edge(d_, "pos") for d_ in deps), res=res)

    nodes = {
        "none_chain": (sn(), s(0), c(1), c(0)),
        "deep": (s(), d(0), d(1, res="m"), c(2), s()),
        "one": (s(), c(0)),
        "two": (s(), s(), c(0), c(1, res="m")),
        "chain": (s(), s(0), c(1)),
        "chain_plus": (s(), s(0), s(), c(1), c(2, res="a"), c(3, 4)),
        # single string tags that contain one another: a selection by tag "enc" names node 0 only
        "tagged": (GNode(setup=True, res="t", tag="enc"), GNode(setup=True, res="t", tag="enc_large"),
                   GNode(edges=(Edge(0, "pos"), P), res="t", tag="use"), GNode(edges=(Edge(1, "pos"), P), res="t", tag="use_more")),
    }[name]
    return GProg(nodes=nodes, mc=2, is_async=is_async, params=(("x", NODEFAULT),))


TOPOS = ["one", "two", "chain", "chain_plus", "none_chain", "deep", "tagged"]


def menu(p: GProg):
    n = len(p.nodes)
    consumers = [i for i, nd in enumerate(p.nodes) if not nd.setup]
    setups = [i for i, nd in enumerate(p.nodes) if nd.setup]
    t1, t2 = consumers[0], setups[-1]
    t3 = consumers[-1]
    m = [("call", None, "a"), ("call", None, "b"), ("executor", None, "a"),
         ("executor", {"T": [t1]}, "a"), ("executor", {"T": [t2]}, "a"), ("executor", {"X": [consumers[-1]]}, "a"),
         ("setup", None, None), ("setup", {"T": [t1]}, None), ("setup", {"T": [t2]}, None), ("deepcopy", None, None),
         ("mk_executor", None, None), ("run_executor", None, "c"), ("setup", {"T": [t3]}, None), ("setup", {"T": []}, None),
         ("executor_setup", {"T": [t1]}, None), ("executor_setup", None, None)]
    if any(nd.tag is not None for nd in p.nodes):
        m = m[:3] + [("setup", {"T": [0], "by_tag": True}, None), ("executor", {"T": [2], "by_tag": True}, "a"), ("setup", {"T": [2], "by_tag": True}, None),
                     ("executor", {"T": [0], "by_tag": True}, "a"), ("setup", None, None), ("deepcopy", None, None)]
    return m


def cases(tier: str):
    q = tier == "quick"
    yield dict(kind="build")
    for depth in ((1, 2, 3) if q else (1, 2, 3, 4)):
        for name in TOPOS:
            for is_async in (False, True):
                m = menu(topo(name, is_async))
                for hist in itertools.product(range(len(m)), repeat=depth):
                    yield dict(kind="hist", topo=name, is_async=is_async, hist=list(hist))


def run_hist(acc, c):
    p = topo(c["topo"], c["is_async"])
    m = menu(p)
    acc.cases += 1
    inst = Instance(p)
    original = None
    stored = None
    names = []
    for step, k in enumerate(c["hist"]):
        kind, sel, arg = m[k]
        names.append(f"{kind}{sel or ''}{'(' + arg + ')' if arg else ''}")
        if kind == "deepcopy":
            if original is None:
                original = inst
            inst = inst.clone()
            stored = None
            continue
        if kind == "mk_executor":
            stored = inst.d.executor()  # constructed now, run later (setup() may be called in between)
            continue
        if kind == "run_executor":
            if stored is None:
                continue
            run_op(acc, c, names, inst, "executor_obj", None, (arg,), executor_obj=stored)
            stored = None
            continue
        run_op(acc, c, names, inst, kind, sel, (arg,) if arg else ())
    # probes: the instance (and the original it was copied from) still behave
    run_op(acc, c, names + ["probe call(z)"], inst, "call", None, ("z",))
    if original is not None:
        run_op(acc, c, names + ["probe original call(z)"], original, "call", None, ("z",))
    acc.states += len(c["hist"]) + 1
    acc.transitions += len(c["hist"]) + 1
    if len(set(c["hist"])) >= 2:
        acc.mark_nontrivial((c["topo"], c["is_async"], tuple(c["hist"])))
    if acc.cases <= 2:
        acc.sample({"case": c, "ops": names})


def build_clause(acc, c):
    """every shape N<=3 x placement of setup flags x which nodes take the DAG argument x dependency forms:
    rejected iff a setup node depends on a non-setup node or on a DAG argument."""
    from tawazi.errors import TawaziBaseException

    acc.cases += 1
    nested_build_clause(acc, c)
    for n in (1, 2, 3):
        for es in shapes(n):
            for off in (0, 3, 4):
                es4 = kinds_rotating(es, off)
                for k in range(0, n + 1):
                    for st in itertools.combinations(range(n), k):
                        for argk in range(0, n + 1):
                            for takes in itertools.combinations(range(n), argk):
                                if argk > 1 and off != 0:
                                    continue
                                base = prog_of(dict(n=n, es=es4, setup=list(st), res="t" * n, mc=1))
                                nodes = list(base.nodes)
                                for i in takes:
                                    has_flag = any(e.kind == "flag" for e in nodes[i].edges)
                                    form = [("pos", ()), ("kw", ()), ("flag", ()), ("pos", (0,))][(i + off + argk) % 4]
                                    if form[0] == "flag" and has_flag:
                                        form = ("kw", ())
                                    nodes[i] = GNode(**{**nodes[i].__dict__, "edges": nodes[i].edges + (Edge(-1, form[0], form[1]),)})
                                for default in (1, NODEFAULT):  # a defaulted and a required DAG argument
                                    p = GProg(nodes=tuple(nodes), params=(("x", default),))
                                    bad = any((i in st) and (any(d not in st for d in p.deps(i)) or i in takes) for i in range(n))
                                    acc.evaluations += 1
                                    try:
                                        build_gprog(p)
                                        refused = False
                                    except (TawaziBaseException, ValueError):
                                        refused = True
                                    if bad:
                                        acc.mark_nontrivial(("build", n, tuple(es4), st, takes, default))
                                    if refused != bad:
                                        acc.violation(V("setup_dependency_check", f"setup={st} takes_arg={takes} (default={default!r}) edges={es4}: builder {'refused' if refused else 'accepted'}, reference says {'refuse' if bad else 'accept'}",
                                                        refused=refused), dict(c, n=n, es=es4, setup=list(st), takes=list(takes)), (), None, p.source())


NESTED_BUILD_SRC = '''
from tawazi import xn, dag

@xn
def double(x):
    return 2 * x

@xn(setup=True)
def prep():
    return 5

@xn(setup=True)
def load(v):
    return ("loaded", v)

@dag
def passthrough(a):
    return a

@dag
def inner(a):
    return double(a)

@dag
def inner_setup():
    return prep()

@dag
def inner_mixed(a):
    p = prep()
    return p, double(a)

@dag
def two_levels(a):
    return passthrough(a)
'''

# body of the describing function `def main(x):`, must the builder refuse it, value of main(3) when accepted
NESTED_BUILDS = [
    ("return load(passthrough(double(x)))", True, None),       # through a DAG that hands its own parameter back
    ("return load(two_levels(double(x)))", True, None),
    ("return load(inner(x))", True, None),                       # the inner DAG's node is not a setup node
    ("return load(inner_mixed(x)[1])", True, None),
    ("return load(passthrough(x))", True, None),                 # a DAG argument, handed through an inner DAG
    ("return load(v=passthrough(double(x)))", True, None),
    ("return load(inner_setup())", False, ("loaded", 5)),        # only setup nodes behind the inner DAG
    ("return load(inner_mixed(x)[0])", False, ("loaded", 5)),
]


def nested_build_clause(acc, c):
    """the dependency of a setup node crosses the boundary of a DAG called inside the DAG"""
    from ..build import exec_source
    for body, must_refuse, value in NESTED_BUILDS:
        src = NESTED_BUILD_SRC + "\n@dag\ndef main(x):\n    " + body + "\n"
        acc.evaluations += 1
        try:
            ns = exec_source(src)
            got = None
        except BaseException as e:  # noqa: BLE001
            got = ("refused", type(e).__name__)
        if got is None:
            from .. import harness as H
            res = H.run_controlled(lambda: ns["main"](3))
            got = ("accepted", res.value if res.outcome == "return" else repr(res.exc))
        acc.mark_nontrivial(("nested_build", body))
        ok = got[0] == "refused" if must_refuse else got == ("accepted", value)
        if not ok:
            acc.violation(V("setup_dependency_check", f"'{body}': builder gave {got!r}, reference says {'refuse' if must_refuse else ('accept', value)}",
                            refused=got[0] == "refused", nested=True), dict(c, body=body), (), None, src)


def run_shard(tier, k, n, acc):
    for c in shard_iter(cases(tier), k, n, acc):
        if c["kind"] == "build":
            build_clause(acc, c)
        else:
            run_hist(acc, c)


def replay(v):
    from ..acc import Acc
    a = Acc(ID, 0, 1, 600)
    c = v["case"]
    if c.get("kind") == "hist":
        run_hist(a, {k: c[k] for k in ("kind", "topo", "is_async", "hist")})
    else:
        build_clause(a, {"kind": "build"})
    return a.violations, None
