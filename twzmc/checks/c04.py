"""C04 - at most max_concurrency pooled nodes in flight; resources decide the thread."""
from __future__ import annotations

from ..gprog import seq_menu, shapes
from ..monitors import mon_c04, V
from ..sched import replay_case, run_case
from ..spaces import all_res, shard_iter

ID = "C04"
BUDGET = {"quick": 240, "thorough": 900}
MONITORS = [mon_c04]


def cases(tier: str):
    q = tier == "quick"
    yield dict(special="max_concurrency_validation")
    for n in (1, 2, 3):
        for es in shapes(n):
            for res in all_res(n):
                for mc in (1, 2, 3):
                    for seq in seq_menu(n):
                        for is_async in (False, True):
                            yield dict(n=n, es=es, res=res, mc=mc, seq=seq, is_async=is_async, ties=1 if q else None)
    # an AsyncDAG awaited while another task (a heartbeat) is alive on the same loop: the resources still decide the thread
    for n in (2, 3):
        for es in shapes(n):
            for res in all_res(n):
                if "m" not in res:
                    continue
                for mc in (1, 2):
                    yield dict(n=n, es=es, res=res, mc=mc, seq=(False,) * n, is_async=True, sibling=True, ties=0)
    # max_concurrency reconfigured after the build (lowered and raised), by config_from_dict and by assignment
    for n in (2, 3, 4):
        for es in shapes(n):
            if len(es) > 1:
                continue
            for res in ("t" * n, "a" * n, ("ta" * n)[:n]):
                for build_mc, mc in ((3, 1), (3, 2), (4, 2), (1, 2), (1, 3), (2, 3)):
                    for via in ("dict", "attr"):
                        yield dict(n=n, es=es, res=res, mc=mc, reconf={"build_mc": build_mc, "mc": mc, "via": via}, seq=(False,) * n,
                                   is_async=(n == 3), ties=0)
    n = 4
    for es in shapes(n):
        if q and len(es) > 3:
            continue  # quick: wide shapes only (antichains / fans): that is where the bound is stressed
        for res in all_res(n):
            for mc in (1, 2, 3):
                for seq in (seq_menu(n)[:1] if q else seq_menu(n)):
                    for is_async in ((False,) if q else (False, True)):
                        yield dict(n=n, es=es, res=res, mc=mc, seq=seq, is_async=is_async, ties=0 if q else 2)
    if not q:
        n = 5
        for es in shapes(n):
            if len(es) > 2:
                continue
            for res in ("ttttt", "aaaaa", "tatat", "ttmta", "amtat"):
                for mc in (2, 3):
                    yield dict(n=n, es=es, res=res, mc=mc, seq=(False,) * n, is_async=False, ties=0)


def nontrivial(view):
    # more pooled nodes ready at the same time than max_concurrency allows to start
    pooled = [i for i, nd in enumerate(view.prog.nodes) if nd.res in "ta"]
    if len(pooled) > view.prog.mc:
        return tuple(e[1] for e in view.trace if e[0] in ("submit", "exit"))
    if any(nd.res == "m" for nd in view.prog.nodes) and pooled:
        return ("mix",) + tuple(e[1] for e in view.trace if e[0] in ("enter",))
    return None


def validation_case(acc, c):
    """Build-time clause: max_concurrency must be an int >= 1."""
    from tawazi import dag, xn

    @xn
    def f():
        return 1

    acc.cases += 1
    for bad in (0, -1, -7, 1.5, "2", None, 2.0):
        acc.evaluations += 1
        try:
            @dag(max_concurrency=bad)
            def d():
                return f()
        except (ValueError, TypeError):
            acc.mark_nontrivial(("mcval", repr(bad)))
            continue
        acc.violation(V("max_concurrency_accepted", f"@dag(max_concurrency={bad!r}) was accepted", value=repr(bad)), c)
    for good in (1, 2, 5):
        acc.evaluations += 1
        try:
            @dag(max_concurrency=good)
            def d2():
                return f()
        except Exception as e:  # noqa: BLE001
            acc.violation(V("max_concurrency_refused", f"@dag(max_concurrency={good!r}) was refused: {e!r}", value=repr(good)), c)


def all_cases(tier):
    import itertools

    from ..spaces import cross_families, foreign_quick_cases
    its = [cases(tier), cross_families(tier)]
    if tier != "quick":
        its.append(foreign_quick_cases("c04"))
    return itertools.chain(*its)


def run_shard(tier, k, n, acc):
    for c in shard_iter(all_cases(tier), k, n, acc):
        if c.get("special"):
            validation_case(acc, c)
        else:
            run_case(acc, c, MONITORS, nontrivial)


def replay(v):
    if v["case"].get("special"):
        from ..acc import Acc
        a = Acc(ID, 0, 1, 60)
        validation_case(a, v["case"])
        return a.violations, None
    res, viols = replay_case(v["case"], MONITORS, v["prefix"])
    return viols, res.trace
