"""C20 - calling a DAG inside a DAG is equivalent to inlining it."""
from __future__ import annotations

import itertools

from .. import harness as H
from .. import ir
from ..ir import NODEFAULT
from ..monitors import V
from ..prog import build, compare, run_program
from ..spaces import shard_iter

ID = "C20"
BUDGET = {"quick": 240, "thorough": 300}


def P(name):
    return ["p", name]


def Vv(name, *path):
    return ["v", name, list(path)]


def C(v):
    return ["c", v]


def call(fn, args, out, kwargs=None, flag=None):
    return {"k": "call", "fn": fn, "args": args, "kwargs": kwargs or {}, "flag": flag, "out": out}


def sub(dag, args, out, flag=None):
    return {"k": "sub", "dag": dag, "args": args, "flag": flag, "out": out}


SIGS = {
    "a": [["a", NODEFAULT]],
    "ab5": [["a", NODEFAULT], ["b", 5]],
    "a1b5": [["a", 1], ["b", 5]],
}
RETS = ["single", "tuple_in", "list", "dict", "tuple_const", "dict_const", "input_only"]


def inner_prog(name, sig, ret, kwidx=False):
    params = SIGS[sig]
    b = P("b") if len(params) > 1 else C(10)
    body = [call("add", [P("a"), b], "w0"), call("inc", [Vv("w0")], "w1")]
    if kwidx:
        # indexed / unpacked values passed by keyword between inner nodes
        body = [call("pair", [P("a")], "q"), call("add", [Vv("q", 0)], "w0", kwargs={"y": Vv("q", 1)}),
                call("mkd", [b], "m"), call("add", [Vv("w0")], "w1", kwargs={"y": Vv("m", "l", 1)})]
    r = {
        "single": ["atom", Vv("w1")],
        "tuple_in": ["tuple", [Vv("w1"), P("a")]],
        "list": ["list", [Vv("w0"), Vv("w1")]],
        "dict": ["dict", {"p": Vv("w0"), "q": Vv("w1")}],
        "tuple_const": ["tuple", [Vv("w1"), C(9)]],
        "dict_const": ["dict", {"p": Vv("w1"), "c": C("z")}],
        "input_only": ["atom", P("a")],
    }[ret]
    return {"name": name, "params": params, "body": body, "ret": r, "subs": []}


def call_forms(sig):
    """argument lists (atoms) for the inner call; 'R' = a result of the outer DAG, 'RI' = an indexed result."""
    n = len(SIGS[sig])
    firsts = [P("x"), C(3), Vv("o0"), Vv("o1", 1)]
    seconds = [None, C(5), C(8), P("x"), Vv("o0")]  # omitted / explicit == default / explicit != default / param / result
    forms = []
    if sig == "a1b5":
        forms.append([])
    for f in firsts:
        if n == 1:
            forms.append([f])
        else:
            for s in seconds:
                forms.append([f] if s is None else [f, s])
    return forms


def outer_uses(ret):
    """(statements after `r = inner(...)`, return spec) for every use of the returned value(s)."""
    if ret in ("single", "input_only"):
        yield "returned", [], ["atom", Vv("r")]
        yield "to_node", [call("inc", [Vv("r")], "u0")], ["tuple", [Vv("u0"), Vv("r")]]
        yield "to_subdag", [sub("tail", [Vv("r")], "u0")], ["atom", Vv("u0")]
        yield "as_flag", [call("inc", [P("x")], "u0", flag=Vv("r"))], ["atom", Vv("u0")]
        yield "operator", [{"k": "op", "op": "+", "a": Vv("r"), "b": P("x"), "out": "u0"}], ["atom", Vv("u0")]
    elif ret in ("tuple_in", "list", "tuple_const"):
        yield "returned", [], ["atom", Vv("r")]
        yield "indexed", [call("inc", [Vv("r", 0)], "u0")], ["tuple", [Vv("u0"), Vv("r", 1)]]
        yield "unpacked", None, None  # handled by the caller (out = [ra, rb])
        yield "to_subdag", [sub("tail", [Vv("r", 0)], "u0")], ["atom", Vv("u0")]
        yield "as_flag", [call("inc", [P("x")], "u0", flag=Vv("r", 1))], ["atom", Vv("u0")]
    else:
        yield "returned", [], ["atom", Vv("r")]
        yield "indexed", [call("inc", [Vv("r", "p")], "u0")], ["dict", {"u": Vv("u0"), "r": Vv("r", "p")}]
        yield "to_subdag", [sub("tail", [Vv("r", "p")], "u0")], ["atom", Vv("u0")]


TAIL = {"name": "tail", "params": [["t", NODEFAULT]], "body": [call("inc", [P("t")], "w0")], "ret": ["atom", Vv("w0")], "subs": []}


def cases(tier: str):
    q = tier == "quick"
    # A. one nested call: signatures x call forms x return shapes x outer uses
    for sig in SIGS:
        for ret in RETS:
            inner = inner_prog("inner", sig, ret)
            for args in call_forms(sig):
                for use, stmts, rspec in outer_uses(ret):
                    pre = [call("inc", [P("x")], "o0"), call("pair", [P("x")], "o1")]
                    if use == "unpacked":
                        body = pre + [sub("inner", args, ["ra", "rb"]), call("add", [Vv("ra"), Vv("rb")], "u0")]
                        rspec = ["tuple", [Vv("u0"), Vv("ra")]]
                    else:
                        body = pre + [sub("inner", args, "r")] + stmts
                    subs = [inner] + ([TAIL] if use == "to_subdag" else [])
                    yield dict(fam="A", sig=sig, ret=ret, use=use,
                               prog={"name": "main", "params": [["x", NODEFAULT]], "body": body, "ret": rspec, "subs": subs})
    # A2. inner nodes exchange indexed values by keyword
    for sig in SIGS:
        for ret in ("single", "tuple_in", "dict"):
            inner = inner_prog("inner", sig, ret, kwidx=True)
            for args in call_forms(sig)[::3]:
                for use, stmts, rspec in list(outer_uses(ret))[:2]:
                    pre = [call("inc", [P("x")], "o0"), call("pair", [P("x")], "o1")]
                    yield dict(fam="A2", sig=sig, ret=ret, use=use,
                               prog={"name": "main", "params": [["x", NODEFAULT]], "body": pre + [sub("inner", args, "r")] + stmts, "ret": rspec, "subs": [inner]})
    # B. depth 2 and 3
    for sig in SIGS:
        for ret in ("single", "tuple_in", "dict"):
            inner = inner_prog("inner", sig, ret)
            for args in call_forms(sig)[:: (2 if q else 1)]:
                proj = Vv("m") if ret == "single" else (Vv("m", 0) if ret == "tuple_in" else Vv("m", "q"))
                margs = [a if a[0] == "c" else P("t") for a in args]  # inside `mid` only its own parameter exists
                mid = {"name": "mid", "params": [["t", NODEFAULT], ["s", 2]],
                       "body": [sub("inner", margs, "m"), call("add", [proj, P("s")], "w9")],
                       "ret": ["tuple", [Vv("w9"), P("t")]], "subs": [inner]}
                for margs2 in ([P("x")], [P("x"), C(7)], [C(4)]):
                    yield dict(fam="B2", sig=sig, ret=ret,
                               prog={"name": "main", "params": [["x", NODEFAULT]], "body": [sub("mid", margs2, ["ma", "mb"]), call("inc", [Vv("ma")], "u0")],
                                     "ret": ["tuple", [Vv("u0"), Vv("mb")]], "subs": [mid]})
                    top = {"name": "top", "params": [["z", NODEFAULT]], "body": [sub("mid", [P("z")] + margs2[1:], ["ta", "tb"])],
                           "ret": ["list", [Vv("ta"), Vv("tb")]], "subs": [mid]}
                    yield dict(fam="B3", sig=sig, ret=ret,
                               prog={"name": "main", "params": [["x", NODEFAULT]], "body": [sub("top", [margs2[0]], "tt"), call("inc", [Vv("tt", 0)], "u0")],
                                     "ret": ["tuple", [Vv("u0"), Vv("tt", 1)]], "subs": [top]})
    yield dict(fam="reconf")
    yield dict(fam="composed_nest")
    yield dict(fam="twins")
    yield from passthrough_cases()
    yield from repeated_cases()
    # C. the same inner DAG twice in one outer DAG; the same function inside and outside
    for sig in SIGS:
        for ret in ("single", "tuple_in", "dict"):
            inner = inner_prog("inner", sig, ret)
            p1 = Vv("r1") if ret == "single" else (Vv("r1", 0) if ret == "tuple_in" else Vv("r1", "q"))
            p2 = Vv("r2") if ret == "single" else (Vv("r2", 0) if ret == "tuple_in" else Vv("r2", "q"))
            for a1, a2 in itertools.product(call_forms(sig)[:3], [[P("x")], [p1], [p1, C(8)] if sig != "a" else [C(2)], [P("x"), p1] if sig != "a" else [p1]]):
                a1 = [P("x") if a[0] == "v" else a for a in a1]
                body = [sub("inner", a1, "r1"), sub("inner", a2, "r2"), call("add", [p1, p2], "u0"), call("inc", [P("x")], "u1")]
                yield dict(fam="C", sig=sig, ret=ret,
                           prog={"name": "main", "params": [["x", NODEFAULT]], "body": body, "ret": ["tuple", [Vv("u0"), Vv("u1"), p2]], "subs": [inner]})


def passthrough_cases():
    """an inner parameter that no inner node reads and that is only handed back in the return value (dict / tuple / list / single)"""
    for shape in ("dict", "tuple", "list", "single"):
        for sig in ("ab5", "a1b5"):
            params = SIGS[sig]
            body = [call("inc", [P("b")], "w0")]  # only b is consumed; a is a pure pass-through
            ret = {"dict": ["dict", {"p": Vv("w0"), "q": P("a")}], "tuple": ["tuple", [Vv("w0"), P("a")]], "list": ["list", [P("a"), Vv("w0")]],
                   "single": ["atom", P("a")]}[shape]
            inner = {"name": "inner", "params": params, "body": body, "ret": ret, "subs": []}
            mid = {"name": "mid", "params": [["t", NODEFAULT]], "body": [sub("inner", [P("t"), C(2)], "m")], "ret": ["atom", Vv("m")], "subs": [inner]} \
                if shape == "single" else None
            for args in ([P("x")], [C(7)], [Vv("o0")], [P("x"), C(8)], [Vv("o0"), P("x")]):
                proj = {"dict": Vv("r", "q"), "tuple": Vv("r", 1), "list": Vv("r", 0), "single": Vv("r")}[shape]
                pre = [call("inc", [P("x")], "o0")]
                yield dict(fam="P", sig=sig, ret=shape, use="returned+node",
                           prog={"name": "main", "params": [["x", NODEFAULT]], "body": pre + [sub("inner", args, "r"), call("ident", [proj], "u0")],
                                 "ret": ["tuple", [proj, Vv("u0")]], "subs": [inner]})
            if mid is not None:
                yield dict(fam="P", sig=sig, ret=shape, use="depth2",
                           prog={"name": "main", "params": [["x", NODEFAULT]], "body": [sub("mid", [P("x")], "r"), call("ident", [Vv("r")], "u0")],
                                 "ret": ["tuple", [Vv("r"), Vv("u0")]], "subs": [mid]})


COMPOSED_NEST_SRC = '''
from tawazi import xn, dag
import twzmc.harness as H
import twzmc.ir as IRL

@xn
def inc(*a, **k):
    return H.lib_call("inc", IRL.LIB["inc"], a, k)

@xn
def add(*a, **k):
    return H.lib_call("add", IRL.LIB["add"], a, k)

@dag
def chain(x):
    v = inc(x)
{steps}
    return v

# a DAG derived by compose() (its node table is built from a SET of ids: arbitrary order) ...
part = chain.compose("part", "inc", "{last}")

# ... called inside other DAGs, one and two levels deep
@dag
def outer(y):
    return inc(part(add(y, 1)))

@dag
def top(z):
    return outer(z), part(z)
'''


def composed_nest_case(acc, c):
    from ..build import exec_source
    acc.cases += 1
    nsteps = 9
    steps = "\n".join("    v = add(v, %d)" % (i + 1) for i in range(nsteps))
    last = "add<<%d>>" % (nsteps - 1)
    src = COMPOSED_NEST_SRC.format(steps=steps, last=last)
    acc.evaluations += 1
    try:
        ns = exec_source(src)
    except Exception as e:  # noqa: BLE001
        acc.violation(V("build_failed", f"nesting a DAG derived by compose() raised {e!r}", exc=type(e).__name__), c, (), None, src)
        return
    tail = sum(range(1, nsteps + 1))
    for name, arg, want in (("outer", 3, 3 + 1 + tail + 1), ("top", 5, (5 + 1 + tail + 1, 5 + tail))):
        res = H.run_controlled(lambda: ns[name](arg))
        acc.evaluations += 1
        acc.mark_nontrivial(("composed_nest", name))
        if res.outcome != "return" or res.value != want:
            acc.violation(V("wrong_value", f"{name}({arg}) with a nested composed DAG returned {res.value!r} ({res.outcome} {res.exc!r}), plain evaluation gives {want!r}"),
                          c, (), res.trace, src)


def repeated_cases():
    """the same inner DAG called 3-4 times in one outer DAG (module-level and locally defined: dotted qualified name),
    later calls overriding the default with a constant and with another call's result"""
    for sig in ("ab5", "a1b5"):
        for ret in ("single", "tuple_in", "dict"):
            inner = inner_prog("inner", sig, ret)

            def pj(v):
                return Vv(v) if ret == "single" else (Vv(v, 0) if ret == "tuple_in" else Vv(v, "q"))

            body = [sub("inner", [P("x")], "r1"), sub("inner", [pj("r1"), C(8)], "r2"), sub("inner", [P("x"), pj("r2")], "r3"),
                    sub("inner", [pj("r3"), pj("r1")], "r4"), call("add", [pj("r3"), pj("r4")], "u0")]
            for local in (False, True):
                yield dict(fam="R", sig=sig, ret=ret, use="local" if local else "module", local_subs=local,
                           prog={"name": "main", "params": [["x", NODEFAULT]], "body": body,
                                 "ret": ["tuple", [Vv("u0"), pj("r2"), pj("r1")]], "subs": [inner]})


RECONF_SRC = '''
from tawazi import xn, dag, Resource
import twzmc.harness as H
@xn
def a(*args, **k):
    return H.node_body("a", args, k)
@xn
def b(*args, **k):
    return H.node_body("b", args, k)
@dag
def inner(x):
    return a(x), b(x)
@dag
def outer1(x):
    return inner(x)
inner.config_from_dict({"nodes": {"b": {"priority": 10, "is_sequential": True}}})
@dag
def outer2(x):
    return inner(x)
@dag
def twin_inner(x):
    return a(x), b(x)
twin_inner.config_from_dict({"nodes": {"b": {"priority": 10, "is_sequential": True}}})
'''


def reconf_case(acc, c):
    """inline inner; reconfigure inner; inline it again: the second outer DAG carries the NEW attributes (as hand-inlining would)"""
    from ..build import exec_source
    acc.cases += 1
    ns = exec_source(RECONF_SRC)
    o1, o2 = ns["outer1"], ns["outer2"]
    acc.evaluations += 1
    nb = o2.get_node_by_id("inner.b")
    if (nb.priority, nb.is_sequential) != (10, True):
        acc.violation(V("stale_inner_attributes", f"outer DAG built after inner.config_from_dict: inner.b has priority={nb.priority}, is_sequential={nb.is_sequential} (expected 10, True)"),
                      c, (), None, RECONF_SRC)
    ob = o1.get_node_by_id("inner.b")
    if (ob.priority, ob.is_sequential) != (0, False):
        acc.violation(V("earlier_outer_changed", f"the outer DAG built BEFORE the reconfiguration changed: inner.b priority={ob.priority}"), c, (), None, RECONF_SRC)
    res = H.run_controlled(lambda: o2("v"))
    acc.evaluations += 1
    order = [e[1] for e in res.trace if e[0] == "enter"]
    if res.outcome != "return" or order != ["inner.b", "inner.a"]:
        acc.violation(V("stale_inner_order", f"max_concurrency=1 entry order of the second outer DAG is {order}, expected ['inner.b', 'inner.a'] ({res.outcome} {res.exc!r})"),
                      c, (), res.trace, RECONF_SRC)
    acc.mark_nontrivial("reconf_between_inlinings")
    acc.mark_nontrivial("reconf_between_inlinings_order")


TWINS_SRC = '''
from tawazi import xn, dag
import twzmc.harness as H
import twzmc.ir as IRL
import functools

@xn
def add(*a, **k):
    return H.lib_call("add", IRL.LIB["add"], a, k)

@xn
def inc(*a, **k):
    return H.lib_call("inc", IRL.LIB["inc"], a, k)

def make_affine(k, c):
    # a factory: every call gives a NEW DAG object; all of them carry the same qualname
    @dag
    def affine(v):
        return add(add(v, k), y=c)
    return affine

def make_deep(k):
    @dag
    def leaf(v):
        return add(v, k)
    @dag
    def deep(v):
        return leaf(inc(v))
    return deep

A, B = make_affine(2, 1), make_affine(3, 10)
D1, D2 = make_deep(100), make_deep(200)

@dag
def inner(v):
    return add(inc(v), 5)

@dag(max_concurrency={mc}, is_async={is_async})
def twins(x):
    r1 = A(x)
    r2 = B(x)
    r3 = A(r2)
    r4 = D1(x)
    r5 = D2(r4)
    return r1, r2, r3, r4, r5

@dag
def fw_inner(a, b):
    return add(a, b)

@dag(max_concurrency={mc})
def fw_mid(x, y=100):
    # a parameter WITH a default handed on to an inner DAG: its value is only known when fw_mid is called
    return fw_inner(x, y)

@dag(max_concurrency={mc}, is_async={is_async})
def fw_top(z, w=7):
    r1 = fw_mid(z, 6)
    r2 = fw_mid(z)
    r3 = fw_mid(z, w)
    return r1, r2, r3

def _remember(memory, v):
    memory.append(v)
    return list(memory)

remember = xn(functools.partial(_remember, []))   # a node function that carries state: every call SITE owns a copy of it

@dag
def rem_inner(v):
    s = remember(v)
    return s, inc(s[0])

@dag
def rem_mid(v):
    s, t = rem_inner(v)
    return {{"s": s, "t": t}}

@dag(max_concurrency={mc}, is_async={is_async})
def stateful_flat(a, b):
    s1 = remember(a)
    t1 = inc(s1[0])
    s2 = remember(add(t1, b))
    t2 = inc(s2[0])
    return s1, t1, s2, t2

@dag(max_concurrency={mc}, is_async={is_async})
def stateful_nested(a, b):
    s1, t1 = rem_inner(a)
    d = rem_mid(add(t1, b))
    return s1, t1, d["s"], d["t"]

@dag(max_concurrency={mc}, is_async={is_async})
def many(x):
    outs = []
    v = x
    for _ in range(13):  # more than ten calls of one inner DAG: the call numbers reach two digits
        v = inner(v)
        outs.append(v)
    side = [inner(x) for _ in range(2)]
    return tuple(outs) + tuple(side)
'''


def _aw(d, *a):
    async def op():
        return await d(*a)
    return op


def twins_case(acc, c):
    """(a) different DAG objects that share a qualname (made by a factory) and differ in the constants of their bodies, inlined
    side by side and chained; (b) thirteen calls of one inner DAG in one outer DAG. Reference: the plain Python functions."""
    from ..build import exec_source
    acc.cases += 1
    for mc in (1, 3):
        for is_async in (False, True):
            try:
                ns = exec_source(TWINS_SRC.format(mc=mc, is_async=is_async))
            except BaseException as e:  # noqa: BLE001
                acc.evaluations += 1
                acc.violation(V("build_failed", f"building the outer DAGs (twin inner DAGs / thirteen calls of one inner DAG) raised {e!r}", exc=type(e).__name__),
                              dict(c, mc=mc, is_async=is_async), (), None, TWINS_SRC)
                continue
            for x in (0, 3):
                def aff(k, c_):
                    return lambda v: v + k + c_
                a_, b_ = aff(2, 1), aff(3, 10)
                want_twins = (a_(x), b_(x), a_(b_(x)), x + 1 + 100, (x + 1 + 100) + 1 + 200)
                chain = []
                v = x
                for _ in range(13):
                    v = v + 1 + 5
                    chain.append(v)
                want_many = tuple(chain) + (x + 6, x + 6)
                # differential: the hand-inlined body (run first, on this tree) says what the nested version has to return
                rf = H.run_controlled((lambda: ns["stateful_flat"](x, 4)) if not is_async else _aw(ns["stateful_flat"], x, 4), is_async=is_async)
                rn = H.run_controlled((lambda: ns["stateful_nested"](x, 4)) if not is_async else _aw(ns["stateful_nested"], x, 4), is_async=is_async)
                acc.evaluations += 2
                if x == 0:
                    acc.mark_nontrivial(("stateful", mc, is_async))
                    if rf.outcome != "return" or rn.outcome != "return" or rn.value != rf.value:
                        acc.violation(V("wrong_value", f"stateful node function: body written in place returns {rf.value!r} ({rf.outcome}), the same body through DAGs called inside the DAG "
                                        f"returns {rn.value!r} ({rn.outcome} {rn.exc!r})", dag="stateful"), dict(c, dag="stateful", mc=mc, is_async=is_async, x=x), (), rn.trace, TWINS_SRC)
                for name, args_, want_ in (("fw_mid", (x,), x + 100), ("fw_mid", (x, 6), x + 6), ("fw_top", (x,), (x + 6, x + 100, x + 7)),
                                           ("fw_top", (x, 1), (x + 6, x + 100, x + 1))):
                    a_ = is_async and name != "fw_mid"  # (the DAG that is nested is a sync DAG)
                    rr = H.run_controlled((lambda: ns[name](*args_)) if not a_ else _aw(ns[name], *args_), is_async=a_)
                    acc.evaluations += 1
                    acc.mark_nontrivial(("forwarded_default", name, len(args_), mc, is_async))
                    if rr.outcome != "return" or rr.value != want_:
                        acc.violation(V("wrong_value", f"{name}{args_} (a defaulted parameter forwarded to an inner DAG) returned {rr.value!r} ({rr.outcome} {rr.exc!r}), plain Python gives {want_!r}",
                                        dag=name), dict(c, dag=name, mc=mc, is_async=is_async, x=x), (), rr.trace, TWINS_SRC)
                for name, want in (("twins", want_twins), ("many", want_many)):
                    d = ns[name]
                    if is_async:
                        async def op(d=d):
                            return await d(x)
                    else:
                        def op(d=d):
                            return d(x)
                    res = H.run_controlled(op, is_async=is_async)
                    acc.evaluations += 1
                    acc.mark_nontrivial(("twins", name, mc, is_async, x))
                    if res.outcome != "return" or res.value != want:
                        acc.violation(V("wrong_value", f"{name}({x}) (max_concurrency={mc}, is_async={is_async}) returned {res.value!r} ({res.outcome} {res.exc!r}), "
                                        f"plain Python gives {want!r}", dag=name), dict(c, dag=name, mc=mc, is_async=is_async, x=x), (), res.trace, TWINS_SRC)
                    elif not distinct_ids_ok(d):
                        acc.violation(V("duplicate_ids", f"{name}: node ids are not distinct", dag=name), dict(c, dag=name), (), None, TWINS_SRC)


def distinct_ids_ok(d) -> bool:
    ids = list(d.exec_nodes)
    return len(ids) == len(set(ids))


def run_one(acc, c):
    if c.get("fam") == "reconf":
        return reconf_case(acc, c)
    if c.get("fam") == "composed_nest":
        return composed_nest_case(acc, c)
    if c.get("fam") == "twins":
        return twins_case(acc, c)
    prog = c["prog"]
    inputs = [(0,), (3,), (-2,)]
    case = {"prog": prog, "fam": c["fam"], "local_subs": c.get("local_subs", False)}
    run_program(acc, case, prog, inputs, ["mc1", "mc3"], (False, True), explore_all=False, local_subs=c.get("local_subs", False))
    if c["fam"] in ("A", "R", "P") and sum(1 for st in prog["body"] if st["k"] in ("call", "sub")) <= 4:
        # resources rotated over the call sites of the OUTER body (main-thread / async-thread / thread next to the inner DAG's argument
        # stubs, which run inline), max_concurrency 2, every completion order
        run_program(acc, case, prog, inputs[:1], ["res_rot"], (False,), explore_all=True, tie_budget=0, max_execs=150, local_subs=c.get("local_subs", False))
    acc.mark_nontrivial((c["fam"], c.get("sig"), c.get("ret"), c.get("use"), repr(prog["body"][2]["args"]) if len(prog["body"]) > 2 and "args" in prog["body"][2] else ""))
    if acc.cases <= 2:
        acc.sample({"source": ir.source(prog), "reference": [repr(ir.ref_eval(prog, i)[:2]) for i in inputs]})


def run_shard(tier, k, n, acc):
    for c in shard_iter(cases(tier), k, n, acc):
        run_one(acc, c)


def replay(v):
    from ..acc import Acc
    c = v["case"]
    a = Acc(ID, 0, 1, 600)
    prog = c.get("prog")
    if c.get("fam") == "twins":
        twins_case(a, c)
        return [x for x in a.violations if x["case"].get("dag") == c.get("dag")] if c.get("dag") else a.violations, None
    if c.get("fam") == "reconf":
        reconf_case(a, c)
        return a.violations, None
    if c.get("fam") == "composed_nest":
        composed_nest_case(a, c)
        return a.violations, None
    if "config" not in c:
        run_program(a, c, prog, [(0,), (3,), (-2,)], ["mc1"], (False,), local_subs=c.get("local_subs", False))
        return a.violations, None
    from ..prog import replay_built
    return replay_built(a, v)
