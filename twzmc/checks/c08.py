"""C08 - the scheduler never idles while a ready node and a free slot both exist."""
from __future__ import annotations

from ..gprog import prio_menu, res_menu, seq_menu, shapes
from ..monitors import mon_c08
from ..sched import replay_case, run_case
from ..spaces import all_res, all_seq, cflag_variants, desc_prio, shard_iter

ID = "C08"
BUDGET = {"quick": 240, "thorough": 900}
MONITORS = [mon_c08]


def cases(tier: str):
    q = tier == "quick"
    for n in (2, 3):
        for es in shapes(n):
            for seq in all_seq(n):
                for res in all_res(n):
                    for mc in (1, 2, 3):
                        for prio in ((0,) * n, desc_prio(n)):
                            for is_async in (False, True):
                                yield dict(n=n, es=es, seq=seq, res=res, mc=mc, prio=prio, is_async=is_async, ties=1 if q else None)
    n = 4
    for es in shapes(n):
        for seq in (seq_menu(n)[:n + 1] if q else all_seq(n)):
            for res in (res_menu(n)[:4] if q else res_menu(n)):
                for mc in (2, 3):
                    for prio in (((0,) * n, desc_prio(n)) if q else prio_menu(n)):
                        for is_async in ((False,) if q else (False, True)):
                            yield dict(n=n, es=es, seq=seq, res=res, mc=mc, prio=prio, is_async=is_async, ties=0 if q else 2)
    # deactivated (constant False flag) nodes, sequential or not, next to running nodes
    for n in (2, 3, 4):
        for es in shapes(n):
            if n == 4 and len(es) > (2 if q else 6):
                continue
            for cf in cflag_variants(n)[1:n + 1]:
                i = next(iter(cf))
                for seq in ((False,) * n, tuple(j == i for j in range(n))):
                    for res in ("t" * n, "a" * n, ("tm" * n)[:n]):
                        for mc in (2, 3):
                            for prio in ((0,) * n, tuple(5 if j == i else 0 for j in range(n))):
                                yield dict(n=n, es=es, cflag=cf, seq=seq, res=res, mc=mc, prio=prio, is_async=False, ties=0 if q else 1)
    if not q:
        n = 5
        for es in shapes(n):
            if len(es) > 4:
                continue
            for res in ("t" * n, "a" * n):
                for mc in (2, 3):
                    yield dict(n=n, es=es, seq=(False,) * n, res=res, mc=mc, prio=(0,) * n, is_async=False, ties=0)


def nontrivial(view):
    # a blocking wait that was entered with fewer than max_concurrency pooled nodes in flight
    mc = view.prog.mc
    inflight = 0
    for e in view.trace:
        if e[0] == "ensure" or (e[0] == "submit" and e[2] == "t"):
            inflight += 1
        elif e[0] == "done":
            inflight -= len(e[2])
        elif e[0] == "wait" and e[3] and not e[4] and inflight < mc:
            return tuple(x[1] for x in view.trace if x[0] in ("enter", "exit"))
    return None


def all_cases(tier):
    import itertools

    from ..spaces import cross_families, foreign_quick_cases
    its = [cases(tier), cross_families(tier)]
    if tier != "quick":
        its.append(foreign_quick_cases("c08"))
    return itertools.chain(*its)


def run_shard(tier, k, n, acc):
    for c in shard_iter(all_cases(tier), k, n, acc):
        run_case(acc, c, MONITORS, nontrivial)


def replay(v):
    res, viols = replay_case(v["case"], MONITORS, v["prefix"])
    return viols, res.trace
