"""C02 - no node starts before all of its dependencies have finished; it receives exactly their values."""
from __future__ import annotations

from ..gprog import prio_menu, res_menu, seq_menu, shapes
from ..monitors import mon_c02
from ..sched import replay_case, run_case
from ..spaces import cflag_variants, desc_prio, flag_falsy_variants, kinds_all, kinds_rotating, shard_iter

ID = "C02"
BUDGET = {"quick": 240, "thorough": 900}
MONITORS = [mon_c02]


PARALLEL = [(("pos", (0,)), ("pos", (1,))), (("pos", ()), ("kw", ("k",))), (("kw", ("k", 0)), ("kw", ("k", 1))), (("kw", ("k",)), ("flag", ("k", 1))),
            (("pos", (0,)), ("flag", ())), (("pos", (1,)), ("pos", (0,)))]


def cases(tier: str):
    q = tier == "quick"
    for n in (2, 3):
        for es in shapes(n):
            if not es:
                continue
            for es4 in kinds_all(es):
                for falsy in flag_falsy_variants(es4):
                    for res in res_menu(n):
                        for seq in (seq_menu(n)[:2] if q else seq_menu(n)):
                            for prio in ((0,) * n, desc_prio(n)):
                                for mc in (1, 2, 3):
                                    for is_async in (False, True):
                                        yield dict(n=n, es=es4, falsy=falsy, res=res, seq=seq, prio=prio, mc=mc, is_async=is_async,
                                                   ties=1 if q else None)
    n = 4
    for es in shapes(n):
        if not es:
            continue
        for off in ((0,) if q else (0, 2, 4)):
            es4 = kinds_rotating(es, off)
            for falsy in flag_falsy_variants(es4):
                for res in (res_menu(n)[:4] if q else res_menu(n)):
                    for seq in (seq_menu(n)[:1] if q else seq_menu(n)):
                        for prio in (((0,) * n,) if q else prio_menu(n)[:3]):
                            for mc in ((2, 3) if q else (1, 2, 3)):
                                for is_async in ((False,) if q else (False, True)):
                                    yield dict(n=n, es=es4, falsy=falsy, res=res, seq=seq, prio=prio, mc=mc, is_async=is_async,
                                               ties=1 if q else None)
    # parallel edges: ONE consumer uses the same producer several times, through different index paths / as argument and flag
    for n in (2, 3):
        for es in shapes(n):
            if not es:
                continue
            for (k1, k2) in PARALLEL:
                for which in range(len(es)):
                    (i, j) = es[which]
                    es4 = [(a, b, "pos", ()) for (a, b) in es]
                    es4[which] = (i, j) + k1
                    es4.insert(which + 1, (i, j) + k2)
                    for falsy in flag_falsy_variants(es4):
                        for res in (res_menu(n)[:3] if q else res_menu(n)):
                            for mc in (1, 3):
                                for is_async in ((False,) if q and n == 3 else (False, True)):
                                    yield dict(n=n, es=es4, falsy=falsy, res=res, seq=(False,) * n, prio=(0,) * n, mc=mc, is_async=is_async,
                                               ties=1 if q else None)
    # setup(root_nodes=[r]) on DAGs made of setup nodes only (diamonds included): dependencies hold inside that run as well
    for n in (3, 4):
        for es in shapes(n):
            if len(es) < n - 1:
                continue
            roots = [i for i in range(n) if not any(b == i for (a, b) in es)]
            if len(roots) != 1:
                continue  # (with several roots the default targets - all setup nodes - are not all below the chosen root)
            for r in roots:
                for prio in ((0,) * n, tuple(range(n)), tuple(5 if j == n - 1 else (-3 if j == n - 2 else 0) for j in range(n))):
                    for mc in (1, 2):
                        yield dict(n=n, es=[(i, j, "pos", ()) for (i, j) in es], setup=list(range(n)), falsy=[], res="t" * n, seq=(False,) * n, prio=prio,
                                   mc=mc, is_async=False, sel={"setup": True, "T": None, "R": [r]}, ties=0)
    # constant activation flags: a deactivated node next to pending predecessors of its children
    for n in (2, 3, 4):
        for es in shapes(n):
            if n == 4 and len(es) > (3 if q else 6):
                continue
            for cf in cflag_variants(n)[1:n + 1]:
                for res in res_menu(n)[:4]:
                    for mc in (1, 2, 3):
                        for is_async in ((False,) if (q and n == 4) else (False, True)):
                            yield dict(n=n, es=[(i, j, "pos", ()) for (i, j) in es], cflag=cf, falsy=[], res=res, seq=(False,) * n, prio=(0,) * n,
                                       mc=mc, is_async=is_async, ties=1 if q else None)
    if not q:
        n = 5
        for es in shapes(n):
            if len(es) < 2:
                continue
            es4 = kinds_rotating(es, 0)
            for res in ("t" * n, "tatat"):
                for mc in (2, 3):
                    yield dict(n=n, es=es4, falsy=[], res=res, seq=(False,) * n, prio=(0,) * n, mc=mc, is_async=False, ties=1)


def nontrivial(view):
    # a node with >= 1 participating dependency was entered while another node was (or could be) in flight
    if any(view.prog.deps(view.idx[nid]) for nid in view.enters if nid in view.idx):
        return tuple(e[1] for e in view.trace if e[0] in ("enter", "exit"))
    return None


def all_cases(tier):
    import itertools

    from ..spaces import cross_families, foreign_quick_cases
    its = [cases(tier), cross_families(tier)]
    if tier != "quick":
        its.append(foreign_quick_cases("c02"))
    return itertools.chain(*its)


def nested_cases():
    """dependencies that cross the boundary of a DAG called inside the DAG (argument stubs): repeated calls of one inner DAG, every
    completion order; oracle = reference interpreter (values received by the library calls and returned values)"""
    from . import c20
    for cc in c20.cases("quick"):
        if cc.get("fam") in ("R", "C"):
            yield dict(kind="nested", prog=cc["prog"], local_subs=cc.get("local_subs", False))


def default_param_cases():
    """values that reach nodes from DAG parameters with defaults: calls that omit them, calls that give them, and an executor run with
    explicit values followed by a call that relies on the defaults (same DAG object)"""
    def call(fn, args, out, kwargs=None, flag=None):
        return {"k": "call", "fn": fn, "args": args, "kwargs": kwargs or {}, "flag": flag, "out": out}
    X, Y = ["p", "x"], ["p", "y"]

    def v(n, *path):
        return ["v", n, list(path)]
    bodies = [
        ([call("add", [X, Y], "a"), call("inc", [v("a")], "b")], ["tuple", [v("a"), v("b")]]),
        ([call("inc", [X], "a"), call("add", [v("a")], "b", kwargs={"y": Y})], ["tuple", [v("a"), v("b")]]),
        ([call("mkd", [Y], "m"), call("add", [X, v("m", "k")], "b")], ["dict", {"m": v("m"), "b": v("b")}]),
        ([call("inc", [X], "a", flag=Y), call("add", [v("a"), Y], "b")], ["list", [v("a"), v("b"), Y]]),
    ]
    for body, ret in bodies:
        yield dict(kind="nested", defaults=True, local_subs=False,
                   prog={"name": "main", "params": [["x", "<nodefault>"], ["y", 4]], "body": body, "ret": ret, "subs": []})


def run_nested(acc, c):
    if c.get("defaults"):
        from ..prog import run_program
        run_program(acc, {"prog": c["prog"], "kind": "nested", "local_subs": False}, c["prog"], [(0,), (3,), (0, 0), (3, 7)], ["mc1", "mc3"], (False, True),
                    explore_all=True, tie_budget=0, max_execs=300)
        acc.mark_nontrivial(("defaults", repr(c["prog"]["body"])[:300]))
        return
    from ..prog import run_program
    run_program(acc, {"prog": c["prog"], "kind": "nested", "local_subs": c["local_subs"]}, c["prog"], [(0,), (3,)], ["mc3"], (False,), explore_all=True,
                tie_budget=0, max_execs=300, local_subs=c["local_subs"])
    acc.mark_nontrivial(("nested", repr(c["prog"]["body"])[:300]))


def run_shard(tier, k, n, acc):
    import itertools
    from . import c17
    for c in shard_iter(itertools.chain(all_cases(tier), nested_cases(), default_param_cases(), c17.overlap_subset()), k, n, acc):
        if c.get("kind") == "gather":
            c17.run_gather(acc, c)  # two awaits of one AsyncDAG object overlap: every node receives the values of its OWN execution
        elif c.get("kind") == "nested":
            run_nested(acc, c)
        else:
            run_case(acc, c, MONITORS, nontrivial)


def replay(v):
    c = v["case"]
    if c.get("kind") == "gather":
        from ..acc import Acc
        from . import c17
        a = Acc(ID, 0, 1, 600)
        c17.run_gather(a, c, only_prefix=v["prefix"])
        return a.violations, None
    if c.get("kind") == "nested":
        from .. import harness as H
        from .. import ir
        from ..acc import Acc
        from ..prog import build, compare
        a = Acc(ID, 0, 1, 600)
        from ..prog import replay_built
        return replay_built(a, v)
    res, viols = replay_case(c, MONITORS, v["prefix"])
    return viols, res.trace
